"""Strict reference PARSERS of every PDU an RDP client emits during connection, activation, input and
shutdown -- written from the standards (X.224 class 0 / MS-RDPBCGR 2.2.1.1-2.2.1.18, 2.2.8.1.1.3, 2.2.2.3;
T.125 domain PDUs in aligned PER and connect-initial in BER; T.124 ConnectData / ConferenceCreateRequest in
PER as MS-RDPBCGR 2.2.1.3 annotates it), independent of the implementation and of the Coq model.

Strict = every length / count field equals the size / number of what it describes, fixed-size fields have
their size, strings are encoded (UTF-16LE without unpaired surrogates) and null-terminated as specified,
constants have their specified values, and the parser consumes exactly the frame.  Each parser returns the
decoded field values; `Bad` carries the reason of a rejection.

Two places where the standard's own examples disagree are accepted both ways and nothing else:
  * TS_SHAREDATAHEADER.uncompressedLength: totalLength (server examples) or totalLength - 14 (client examples);
  * bytes of the fixed 32-byte clientName after the first null terminator are not interpreted."""
import struct

class Bad(Exception):
    pass

def need(c, why):
    if not c: raise Bad(why)

class Rd:
    """cursor over a byte string; every read checks the bound"""
    def __init__(self, b, what="frame"):
        self.b = bytes(b); self.i = 0; self.what = what
    def left(self): return len(self.b) - self.i
    def take(self, n, what="bytes"):
        need(n >= 0 and self.i + n <= len(self.b), "%s: %s needs %d bytes, %d left" % (self.what, what, n, self.left()))
        r = self.b[self.i:self.i + n]; self.i += n; return r
    def u8(self, w="u8"): return self.take(1, w)[0]
    def le16(self, w="u16"): return struct.unpack("<H", self.take(2, w))[0]
    def le32(self, w="u32"): return struct.unpack("<I", self.take(4, w))[0]
    def be16(self, w="u16be"): return struct.unpack(">H", self.take(2, w))[0]
    def rest(self):
        r = self.b[self.i:]; self.i = len(self.b); return r
    def end(self):
        need(self.i == len(self.b), "%s: %d trailing bytes" % (self.what, self.left()))

# ------------------------------------------------------------------ strings
def utf16_decode(units):
    """code units -> scalar values; unpaired surrogates are refused"""
    out = []; i = 0
    while i < len(units):
        u = units[i]
        if 0xD800 <= u < 0xDC00:
            need(i + 1 < len(units) and 0xDC00 <= units[i + 1] < 0xE000, "UTF-16: high surrogate without low surrogate")
            out.append(0x10000 + ((u - 0xD800) << 10) + (units[i + 1] - 0xDC00)); i += 2
        else:
            need(not (0xDC00 <= u < 0xE000), "UTF-16: unpaired low surrogate")
            out.append(u); i += 1
    return out

def units_of(b):
    need(len(b) % 2 == 0, "UTF-16 field with an odd number of bytes")
    return list(struct.unpack("<%dH" % (len(b) // 2), b))

def fixed_name(b):
    """fixed-size null-terminated UTF-16 field: the characters before the first null code unit"""
    u = units_of(b)
    need(0 in u, "fixed-size string field has no null terminator")
    return utf16_decode(u[:u.index(0)])

def counted_string(r, cb, what):
    """cb bytes of UTF-16 characters followed by a mandatory 2-byte null terminator NOT counted in cb"""
    need(cb % 2 == 0, "%s: odd byte count %d" % (what, cb))
    s = utf16_decode(units_of(r.take(cb, what)))
    need(r.take(2, what + " terminator") == b"\x00\x00", "%s: missing null terminator" % what)
    return s

def counted_string_incl(r, cb, what):
    """cb bytes INCLUDING the mandatory null terminator (cbClientAddress / cbClientDir)"""
    need(cb >= 2 and cb % 2 == 0, "%s: byte count %d does not include a null terminator" % (what, cb))
    u = units_of(r.take(cb, what))
    need(u[-1] == 0, "%s: not null terminated" % what)
    return utf16_decode(u[:-1])

# ------------------------------------------------------------------ TPKT, X.224
def tpkt(frame):
    r = Rd(frame, "TPKT")
    need(r.u8() == 3, "TPKT version"); need(r.u8() == 0, "TPKT reserved")
    n = r.be16()
    need(n == len(frame), "TPKT length %d != frame size %d" % (n, len(frame)))
    return r.rest()

def x224_data(tpdu):
    r = Rd(tpdu, "X.224 DT")
    need(r.u8() == 2, "X.224 DT length indicator"); need(r.u8() == 0xF0, "X.224 DT code"); need(r.u8() == 0x80, "X.224 EOT")
    return r.rest()

def x224_connection_request(tpdu):
    r = Rd(tpdu, "X.224 CR")
    li = r.u8("LI")
    need(li == len(tpdu) - 1, "X.224 LI %d != %d" % (li, len(tpdu) - 1))
    need(r.u8() == 0xE0, "X.224 CR code / credit"); need(r.be16() == 0, "DST-REF"); src = r.be16(); need(r.u8() == 0, "class 0")
    out = {"src_ref": src, "cookie": None, "neg": None}
    rest = r.rest()
    if rest and rest[0] != 1:
        k = rest.find(b"\r\n")
        need(k >= 0, "routing token / cookie not terminated by CR LF")
        out["cookie"] = rest[:k]; rest = rest[k + 2:]
    if rest:
        q = Rd(rest, "RDP_NEG_REQ")
        need(q.u8() == 1, "TYPE_RDP_NEG_REQ"); flags = q.u8(); need(q.le16() == 8, "RDP_NEG_REQ length"); proto = q.le32()
        need(flags & ~0x0B == 0, "RDP_NEG_REQ flags %#x" % flags)
        if flags & 0x08:
            need(q.u8() == 6 and q.u8() == 0 and q.le16() == 36, "RDP_NEG_CORRELATION_INFO header"); q.take(32)
        q.end()
        out["neg"] = {"flags": flags, "protocols": proto}
    return out

# ------------------------------------------------------------------ BER (T.125 connect-initial)
def ber_len(r):
    b = r.u8("BER length")
    if b < 0x80: return b
    k = b & 0x7f
    need(1 <= k <= 4, "BER length: indefinite or oversized form %#x" % b)
    return int.from_bytes(r.take(k, "BER long length"), "big")

def ber_tlv(r, tag, what):
    t = r.take(len(tag), what + " tag")
    need(t == tag, "%s: tag %s, expected %s" % (what, t.hex(), tag.hex()))
    n = ber_len(r)
    return r.take(n, what)

def ber_uint(r, what):
    c = ber_tlv(r, b"\x02", what)
    need(len(c) >= 1, what + ": empty INTEGER")
    need(not (len(c) > 1 and ((c[0] == 0 and c[1] < 0x80) or (c[0] == 0xff and c[1] >= 0x80))), what + ": non-minimal INTEGER")
    need(c[0] < 0x80, what + ": negative")
    return int.from_bytes(c, "big")

DP_NAMES = ["maxChannelIds", "maxUserIds", "maxTokenIds", "numPriorities", "minThroughput", "maxHeight", "maxMCSPDUsize", "protocolVersion"]
def domain_parameters(r, what):
    q = Rd(ber_tlv(r, b"\x30", what), what)
    v = [ber_uint(q, what + "." + n) for n in DP_NAMES]
    q.end()
    return v

def mcs_connect_initial(pdu):
    r = Rd(pdu, "connect-initial")
    q = Rd(ber_tlv(r, b"\x7f\x65", "Connect-Initial"), "Connect-Initial")
    r.end()
    out = {"calling": ber_tlv(q, b"\x04", "callingDomainSelector"), "called": ber_tlv(q, b"\x04", "calledDomainSelector")}
    up = ber_tlv(q, b"\x01", "upwardFlag"); need(len(up) == 1, "BOOLEAN size"); out["upward"] = up[0] != 0
    out["target"] = domain_parameters(q, "targetParameters")
    out["minimum"] = domain_parameters(q, "minimumParameters")
    out["maximum"] = domain_parameters(q, "maximumParameters")
    out["userData"] = ber_tlv(q, b"\x04", "userData")
    q.end()
    return out

# ------------------------------------------------------------------ PER (X.691 aligned) pieces
def per_length(r, what="PER length"):
    b = r.u8(what)
    if b < 0x80: return b
    need(b < 0xC0, what + ": fragmented form")
    n = ((b & 0x3f) << 8) | r.u8(what)
    need(n >= 0x80, what + ": two-byte form for a length below 128")
    return n

def gcc_conference_create_request(ud):
    """T.124 ConnectData { t124Identifier key, connectPDU OCTET STRING { ConnectGCCPDU.conferenceCreateRequest } }
    exactly as MS-RDPBCGR 2.2.1.3 lays it out; returns the client data blocks (h221NonStandard 'Duca' value)"""
    r = Rd(ud, "GCC ConnectData")
    need(r.take(7) == bytes([0x00, 0x05, 0x00, 0x14, 0x7c, 0x00, 0x01]), "t124Identifier: object {0 0 20 124 0 1}")
    n = per_length(r, "connectPDU length")
    need(n == r.left(), "connectPDU length %d != %d" % (n, r.left()))
    need(r.take(2) == b"\x00\x08", "ConnectGCCPDU choice conferenceCreateRequest, userData present")
    need(r.take(2) == b"\x00\x10", "conferenceName numeric '1'")
    need(r.u8() == 0x00, "padding")
    need(r.u8() == 0x01, "userData: set of 1")
    need(r.u8() == 0xc0, "h221NonStandard")
    need(r.u8() == 0x00, "h221 key length 4")
    need(r.take(4) == b"Duca", "client-to-server H.221 key")
    m = per_length(r, "user data length")
    need(m == r.left(), "user data length %d != %d" % (m, r.left()))
    return r.rest()

CORE_OPTIONAL = [("postBeta2ColorDepth", 2), ("clientProductId", 2), ("serialNumber", 4), ("highColorDepth", 2),
                 ("supportedColorDepths", 2), ("earlyCapabilityFlags", 2), ("clientDigProductId", 64), ("connectionType", 1),
                 ("pad1octet", 1), ("serverSelectedProtocol", 4), ("desktopPhysicalWidth", 4), ("desktopPhysicalHeight", 4),
                 ("desktopOrientation", 2), ("desktopScaleFactor", 4), ("deviceScaleFactor", 4)]

def cs_core(body):
    r = Rd(body, "CS_CORE")
    o = {}
    o["version"] = r.le32(); need(o["version"] >> 16 == 8, "RDP version major")
    o["desktopWidth"] = r.le16(); o["desktopHeight"] = r.le16()
    o["colorDepth"] = r.le16(); need(o["colorDepth"] in (0xCA00, 0xCA01), "colorDepth")
    o["SASSequence"] = r.le16(); need(o["SASSequence"] == 0xAA03, "SASSequence")
    o["keyboardLayout"] = r.le32(); o["clientBuild"] = r.le32()
    o["clientName"] = fixed_name(r.take(32, "clientName"))
    o["keyboardType"] = r.le32(); o["keyboardSubType"] = r.le32(); o["keyboardFunctionKey"] = r.le32()
    o["imeFileName"] = fixed_name(r.take(64, "imeFileName"))
    for name, size in CORE_OPTIONAL:           # optional tail: all preceding fields present, cut only at a field boundary
        if r.left() == 0: break
        v = r.take(size, name)
        o[name] = int.from_bytes(v, "little") if size <= 4 else v
    r.end()
    if "postBeta2ColorDepth" in o: need(0xCA00 <= o["postBeta2ColorDepth"] <= 0xCA04, "postBeta2ColorDepth")
    if "highColorDepth" in o: need(o["highColorDepth"] in (4, 8, 15, 16, 24), "highColorDepth")
    if "supportedColorDepths" in o: need(o["supportedColorDepths"] & ~0xF == 0, "supportedColorDepths")
    if "clientDigProductId" in o: fixed_name(o["clientDigProductId"])
    return o

def cs_security(body):
    r = Rd(body, "CS_SECURITY")
    o = {"encryptionMethods": r.le32(), "extEncryptionMethods": r.le32()}
    need(o["encryptionMethods"] & ~0x1B == 0, "encryptionMethods")
    r.end(); return o

def cs_net(body):
    r = Rd(body, "CS_NET")
    n = r.le32(); need(n <= 31, "channelCount")
    ch = []
    for i in range(n):
        name = r.take(8, "channel name"); need(0 in name, "channel name not null terminated")
        ch.append((name[:name.index(0)], r.le32()))
    r.end()
    return {"channels": ch}

def client_data_blocks(b):
    r = Rd(b, "client data blocks")
    out = {}
    while r.left():
        t = r.le16("block type"); n = r.le16("block length")
        need(n >= 4, "block length %d below its header" % n)
        body = r.take(n - 4, "block %#x body" % t)
        key = {0xC001: "core", 0xC002: "security", 0xC003: "net", 0xC004: "cluster", 0xC005: "monitor", 0xC006: "msgchannel",
               0xC008: "monitor_ex", 0xC00A: "multitransport"}.get(t)
        need(key is not None, "unknown client data block %#x" % t)
        need(key not in out, "duplicate block %s" % key)
        out[key] = {"core": cs_core, "security": cs_security, "net": cs_net}.get(key, lambda x: x)(body)
    need("core" in out, "client core data missing"); need("security" in out, "client security data missing")
    return out

# ------------------------------------------------------------------ T.125 domain PDUs (PER)
def per_uint(r, what):
    n = per_length(r, what)
    need(n >= 1, what + ": empty integer")
    c = r.take(n, what)
    need(not (n > 1 and c[0] == 0), what + ": non-minimal")
    return int.from_bytes(c, "big")

def mcs_domain_pdu(pdu):
    """-> (kind, fields)"""
    r = Rd(pdu, "MCS")
    h = r.u8("choice")
    c, low = h >> 2, h & 3
    if c == 1:
        need(low == 0, "erect-domain: padding bits")
        o = ("erect-domain", {"subHeight": per_uint(r, "subHeight"), "subInterval": per_uint(r, "subInterval")})
    elif c == 10:
        need(low == 0, "attach-user: padding bits"); o = ("attach-user", {})
    elif c == 14:
        need(low == 0, "channel-join: padding bits")
        o = ("channel-join", {"initiator": r.be16() + 1001, "channel": r.be16()})
        need(o[1]["initiator"] <= 65535, "initiator out of range")
    elif c == 25:
        need(low == 0, "send-data-request: padding bits")
        ini = r.be16() + 1001; need(ini <= 65535, "initiator out of range")
        ch = r.be16()
        ps = r.u8("priority/segmentation")
        need(ps & 0x30 == 0x30 and ps & 0x0f == 0, "segmentation must be begin|end, padding zero (got %#x)" % ps)
        n = per_length(r, "userData length")
        need(n == r.left(), "userData length %d != %d" % (n, r.left()))
        return ("send-data-request", {"initiator": ini, "channel": ch, "priority": ps >> 6, "data": r.rest()})
    elif c == 8:
        # reason: 3-bit enumeration straddling the two bytes
        b2 = r.u8("reason")
        reason = ((low << 1) | (b2 >> 7))
        need(reason <= 4, "reason"); need(b2 & 0x7f == 0, "padding bits")
        o = ("disconnect-provider-ultimatum", {"reason": reason})
    else:
        raise Bad("unexpected domain PDU %d" % c)
    r.end()
    return o

# ------------------------------------------------------------------ client info
INFO_FLAGS_KNOWN = 0x03FFFFFF & ~0x00000004   # every defined bit (0x4 is not defined)

def client_info(data):
    r = Rd(data, "client info")
    fl = r.le16("security flags"); hi = r.le16("flagsHi")
    need(fl == 0x0040, "security header flags %#x, expected SEC_INFO_PKT" % fl); need(hi == 0, "flagsHi")
    o = {"codePage": r.le32(), "flags": r.le32()}
    need(o["flags"] & 0x10, "INFO_UNICODE not set (strings are UTF-16)")
    need(o["flags"] & ~INFO_FLAGS_KNOWN == 0, "undefined info flags")
    cb = [r.le16() for _ in range(5)]
    for name, n in zip(["domain", "userName", "password", "alternateShell", "workingDir"], cb):
        o[name] = counted_string(r, n, name)
    if r.left() == 0:
        o["extra"] = None; return o
    e = {"clientAddressFamily": r.le16()}
    need(e["clientAddressFamily"] in (0x0000, 0x0002, 0x0017), "clientAddressFamily")
    e["clientAddress"] = counted_string_incl(r, r.le16("cbClientAddress"), "clientAddress")
    e["clientDir"] = counted_string_incl(r, r.le16("cbClientDir"), "clientDir")
    e["clientTimeZone"] = r.take(172, "clientTimeZone")
    e["clientSessionId"] = r.le32(); e["performanceFlags"] = r.le32()
    if r.left():                       # optional tail, cut only at the documented points
        n = r.le16("cbAutoReconnectCookie"); need(n in (0, 28), "cbAutoReconnectCookie"); e["autoReconnectCookie"] = r.take(n)
        if r.left():
            r.take(4, "reserved1/reserved2")
            if r.left():
                e["dynamicDSTTimeZoneKeyName"] = r.take(r.le16("cbDynamicDSTTimeZoneKeyName"))
                e["dynamicDaylightTimeDisabled"] = r.le16()
    r.end()
    o["extra"] = e
    return o

# ------------------------------------------------------------------ share control / share data
CAP_SIZES = {1: (24,), 2: (28,), 3: (88,), 4: (40,), 5: (12,), 7: (12,), 8: (8, 10), 9: (8,), 10: (8,), 12: (8,), 13: (88,),
             14: (4, 8), 15: (8,), 16: (52,), 17: (12,), 18: (12,), 19: (40,), 20: (8, 12), 21: (12,), 22: (8,), 23: None, 24: (12,), 25: (11,),
             26: (8,), 27: (8,), 28: (11,), 29: None, 30: (6,)}

def capability_sets(b, count):
    r = Rd(b, "capability sets")
    out = []
    while r.left():
        t = r.le16("capabilitySetType"); n = r.le16("lengthCapability")
        need(n >= 4, "lengthCapability %d below its header" % n)
        body = r.take(n - 4, "capability %d data" % t)
        need(t in CAP_SIZES, "unknown capability set type %d" % t)
        need(CAP_SIZES[t] is None or n in CAP_SIZES[t], "capability set %d has length %d, specified %s" % (t, n, CAP_SIZES[t]))
        out.append((t, body))
    need(len(out) == count, "numberCapabilities %d != %d sets present" % (count, len(out)))
    need(len(set(t for t, _ in out)) == len(out), "duplicate capability set")
    return out

def cap_fields(t, body):
    """the fields the configuration determines"""
    if t == 1:
        v = struct.unpack("<9H", body[:18]); return {"protocolVersion": v[2], "extraFlags": v[5]}
    if t == 2:
        v = struct.unpack("<HHHHHH", body[:12]); return {"preferredBitsPerPixel": v[0], "desktopWidth": v[4], "desktopHeight": v[5]}
    if t == 13:
        fl, pad, lay, kt, kst, kfk = struct.unpack("<HHIIII", body[:20])
        return {"inputFlags": fl, "keyboardLayout": lay, "keyboardType": kt, "keyboardSubType": kst, "keyboardFunctionKey": kfk,
                "imeFileName": fixed_name(body[20:84])}
    return {}

def share_control(d):
    r = Rd(d, "share control")
    tl = r.le16("totalLength"); pt = r.le16("pduType"); src = r.le16("pduSource")
    need(tl == len(d), "totalLength %d != %d" % (tl, len(d)))
    need(pt >> 4 == 1, "pduType protocol version")
    return {"pduType": pt & 0xf, "pduSource": src, "totalLength": tl}, r.rest()

def share_data(b, total):
    r = Rd(b, "share data")
    o = {"shareId": r.le32()}; r.u8("pad1"); o["streamId"] = r.u8()
    need(o["streamId"] in (1, 2, 4), "streamId")
    ul = r.le16("uncompressedLength"); o["pduType2"] = r.u8(); ct = r.u8(); cl = r.le16()
    need(ul in (total, total - 14), "uncompressedLength %d, packet is %d (or %d after the headers)" % (ul, total, total - 14))
    need(ct == 0 and cl == 0, "compression fields of an uncompressed PDU")
    return o, r.rest()

def share_pdu(d):
    """-> (kind, fields) for confirm-active / synchronize / control / font-list / input"""
    h, body = share_control(d)
    if h["pduType"] == 3:
        r = Rd(body, "confirm active")
        o = {"pduSource": h["pduSource"], "shareId": r.le32(), "originatorId": r.le16()}
        need(o["originatorId"] == 0x03EA, "originatorId")
        lsd = r.le16("lengthSourceDescriptor"); lcc = r.le16("lengthCombinedCapabilities")
        o["sourceDescriptor"] = r.take(lsd, "sourceDescriptor")
        need(lcc == r.left(), "lengthCombinedCapabilities %d != %d" % (lcc, r.left()))
        n = r.le16("numberCapabilities"); r.le16("pad2Octets")
        caps = capability_sets(r.rest(), n)
        o["capabilities"] = [t for t, _ in caps]
        o["capfields"] = {t: cap_fields(t, b) for t, b in caps}
        return ("confirm-active", o)
    need(h["pduType"] == 7, "unexpected pduType %d" % h["pduType"])
    sd, pl = share_data(body, h["totalLength"])
    o = {"pduSource": h["pduSource"], "shareId": sd["shareId"]}
    r = Rd(pl, "data PDU %d" % sd["pduType2"])
    t2 = sd["pduType2"]
    if t2 == 31:
        need(r.le16() == 1, "SYNCMSGTYPE_SYNC"); o["targetUser"] = r.le16(); r.end(); return ("synchronize", o)
    if t2 == 20:
        o["action"] = r.le16(); o["grantId"] = r.le16(); o["controlId"] = r.le32(); r.end()
        need(o["action"] in (1, 2, 3, 4), "control action"); return ("control", o)
    if t2 == 39:
        v = (r.le16(), r.le16(), r.le16(), r.le16()); r.end()
        need(v == (0, 0, 3, 0x32), "font list fields %r" % (v,)); return ("font-list", o)
    if t2 == 28:
        n = r.le16("numEvents"); r.le16("pad2Octets")
        need(r.left() == 12 * n, "numEvents %d but %d bytes of events" % (n, r.left()))
        evs = []
        for _ in range(n):
            r.le32("eventTime"); mt = r.le16("messageType")
            if mt == 0x8001: evs.append(("mouse", r.le16(), r.le16(), r.le16()))
            elif mt == 0x0004:
                fl = r.le16(); code = r.le16(); need(r.le16() == 0, "keyboard pad2Octets"); evs.append(("key", fl, code))
            else: raise Bad("input messageType %#x" % mt)
        o["events"] = evs
        return ("input", o)
    raise Bad("unexpected pduType2 %d" % t2)

# ------------------------------------------------------------------ one client frame
def client_frame(frame):
    """-> (kind, fields) of one complete frame written by a client"""
    t = tpkt(frame)
    if len(t) >= 2 and t[1] == 0xE0:
        return ("connection-request", x224_connection_request(t))
    p = x224_data(t)
    need(len(p) >= 1, "empty X.224 data")
    if p[0] == 0x7f:
        ci = mcs_connect_initial(p)
        ci["blocks"] = client_data_blocks(gcc_conference_create_request(ci["userData"]))
        return ("connect-initial", ci)
    kind, f = mcs_domain_pdu(p)
    if kind != "send-data-request": return (kind, f)
    d = f["data"]
    need(len(d) >= 4, "send-data-request without user data")
    if struct.unpack("<H", d[2:4])[0] == 0:
        # a basic security header (flagsHi = 0); a share control header carries pduType (version 1) here
        o = client_info(d); o["initiator"] = f["initiator"]; o["channel"] = f["channel"]
        return ("client-info", o)
    k, o = share_pdu(d)
    o["initiator"] = f["initiator"]; o["channel"] = f["channel"]
    return (k, o)

# ------------------------------------------------------------------ canonical rendering (same text as ocaml/pdus/driver.ml `parse`)
def _ns(l):
    l = list(l)
    return ".".join(str(x) for x in l) if l else "-"

def canon(kind, f):
    if kind == "connection-request":
        need(f["neg"] is not None and f["cookie"] is None, "connection request without RDP_NEG_REQ / with a cookie")
        return "cr flags=%d protocols=%d" % (f["neg"]["flags"], f["neg"]["protocols"])
    if kind == "connect-initial":
        c = f["blocks"]["core"]
        opt = []
        for name, size in CORE_OPTIONAL:
            if name in c: opt.append(c[name] if size <= 4 else int.from_bytes(c[name], "little"))
        return "ci target=%s min=%s max=%s core=%d,%d,%d,%d,%d,%d,%d,%s,%d,%d,%d,%s,%s security=%d,%d net=%s" % (
            _ns(f["target"]), _ns(f["minimum"]), _ns(f["maximum"]), c["version"], c["desktopWidth"], c["desktopHeight"], c["colorDepth"],
            c["SASSequence"], c["keyboardLayout"], c["clientBuild"], _ns(c["clientName"]), c["keyboardType"], c["keyboardSubType"],
            c["keyboardFunctionKey"], _ns(c["imeFileName"]), _ns(opt), f["blocks"]["security"]["encryptionMethods"],
            f["blocks"]["security"]["extEncryptionMethods"], str(len(f["blocks"]["net"]["channels"])) if "net" in f["blocks"] else "none")
    if kind == "erect-domain": return "erect %d %d" % (f["subHeight"], f["subInterval"])
    if kind == "attach-user": return "attach"
    if kind == "channel-join": return "join %d %d" % (f["initiator"], f["channel"])
    if kind == "disconnect-provider-ultimatum": return "disc %d" % f["reason"]
    ic = "%d %d" % (f["initiator"], f["channel"])
    if kind == "client-info":
        e = f["extra"]
        ext = "none" if e is None else "%d,%s,%s,%d,%d" % (e["clientAddressFamily"], _ns(e["clientAddress"]), _ns(e["clientDir"]), e["clientSessionId"], e["performanceFlags"])
        return "info %s %d %d %s %s %s %s %s %s" % (ic, f["codePage"], f["flags"], _ns(f["domain"]), _ns(f["userName"]), _ns(f["password"]),
                                                    _ns(f["alternateShell"]), _ns(f["workingDir"]), ext)
    if kind == "confirm-active":
        cf = f["capfields"]
        g = str(cf[1]["extraFlags"]) if 1 in cf else "none"
        b = "%d,%d,%d" % (cf[2]["preferredBitsPerPixel"], cf[2]["desktopWidth"], cf[2]["desktopHeight"]) if 2 in cf else "none"
        i = "%d,%d,%d,%d,%d" % (cf[13]["inputFlags"], cf[13]["keyboardLayout"], cf[13]["keyboardType"], cf[13]["keyboardSubType"], cf[13]["keyboardFunctionKey"]) if 13 in cf else "none"
        return "confirm %s %d %d source=%s caps=%s general=%s bitmap=%s input=%s" % (ic, f["pduSource"], f["shareId"],
               f["sourceDescriptor"].hex() if f["sourceDescriptor"] else "-", _ns(f["capabilities"]), g, b, i)
    if kind == "synchronize": return "sync %s %d %d %d" % (ic, f["pduSource"], f["shareId"], f["targetUser"])
    if kind == "control": return "control %s %d %d %d %d %d" % (ic, f["pduSource"], f["shareId"], f["action"], f["grantId"], f["controlId"])
    if kind == "font-list": return "fontlist %s %d %d" % (ic, f["pduSource"], f["shareId"])
    if kind == "input":
        evs = ";".join(("m,%d,%d,%d" % e[1:]) if e[0] == "mouse" else ("k,%d,%d" % e[1:]) for e in f["events"])
        return "input %s %d %d %s" % (ic, f["pduSource"], f["shareId"], evs or "-")
    raise Bad("no canonical form for " + kind)

def parse_canon(frame):
    """canonical text of the strict parse of one frame, or 'reject'"""
    try:
        k, f = client_frame(frame)
        return canon(k, f)
    except Bad:
        return "reject"

# ==================================================================================================================
# Network level authentication: strict parsers of the NTLM tokens (MS-NLMP 2.2.1.1 NEGOTIATE_MESSAGE, 2.2.1.3
# AUTHENTICATE_MESSAGE with 2.2.2.1 AV_PAIR, 2.2.2.7 NTLMv2_CLIENT_CHALLENGE, 2.2.2.8 NTLMv2_RESPONSE, 2.2.2.10
# VERSION) and of the CredSSP structures (MS-CSSP 2.2.1 TSRequest, 2.2.1.1 NegoData, 2.2.1.2 TSCredentials,
# 2.2.1.2.1 TSPasswordCreds; X.690 DER).  Written from the standards, independently of the Coq spec
# (coq/StrictNla.v) -- the two are compared on every token of the correspondence run.
# Strict: Len = MaxLen in every descriptor, every described field inside the payload, the fields tile the payload
# exactly (sorted sweep: no gap, no overlap, nothing left over; any order), fixed sizes, UTF-16LE names without
# unpaired surrogates under NTLMSSP_NEGOTIATE_UNICODE, AV list closed by a zero-length MsvAvEOL with nothing
# after it (or the Z(4) of MS-NLMP 3.3.2), DER with definite minimal lengths and minimal INTEGERs, exact consumption.
# Readings accepted both ways (see coq/StrictNla.v): VERSION absent or eight zero bytes when the flag is clear; the AV list
# followed by nothing or by Z(4); session-key length free without KEY_EXCH; character set Unicode iff the flag, else OEM.
NTLMSSP = b"NTLMSSP\x00"
F_UNICODE, F_DOMAIN_SUPPLIED, F_WORKSTATION_SUPPLIED, F_VERSION, F_KEY_EXCH = 1 << 0, 1 << 12, 1 << 13, 1 << 25, 1 << 30

def _descriptor(r, what):
    ln, mx, off = r.le16(what + "Len"), r.le16(what + "MaxLen"), r.le32(what + "BufferOffset")
    need(ln == mx, "%s: Len %d != MaxLen %d" % (what, ln, mx))
    return (off, ln, what)

def _tile(fields, start, stop):
    """the described byte ranges must cover [start, stop) exactly: sorted sweep"""
    cur = start
    for off, ln, what in sorted(fields, key=lambda f: (f[0], f[1])):
        need(off >= start, "%s: offset %d points into the fixed part (payload starts at %d)" % (what, off, start))
        need(off + ln <= stop, "%s: offset %d + length %d runs past the end of the %d byte message" % (what, off, ln, stop))
        need(off == cur, "%s: starts at %d but the previous field ends at %d (gap or overlap)" % (what, off, cur))
        cur = off + ln
    need(cur == stop, "%d payload bytes are described by no field" % (stop - cur))

def _version_slot(r, flags, zero_version):
    if flags & F_VERSION:
        v = r.take(8, "Version")
        need(v[7] == 0x0F, "Version.NTLMRevisionCurrent is %#x, not NTLMSSP_REVISION_W2K3" % v[7])
        return v
    if zero_version:
        need(r.take(8, "Version") == b"\x00" * 8, "Version must be all zero when NTLMSSP_NEGOTIATE_VERSION is clear")
    return None

def _two_readings(f, tok):
    try:
        return f(tok, False)
    except Bad as e:
        first = e
    try:
        return f(tok, True)
    except Bad:
        raise first

def _name(unicode_flag, b, what):
    if not unicode_flag: return ("o", bytes(b))
    need(len(b) % 2 == 0, "%s: odd number of bytes in a UTF-16 string" % what)
    try:
        return ("u", utf16_decode(units_of(b)))
    except Bad as e:
        raise Bad("%s: %s" % (what, e))

def av_list(b, what="AV pairs"):
    """AV_PAIRs up to and including MsvAvEOL -> ([(id, value)], number of bytes consumed)"""
    r = Rd(b, what); out = []
    while True:
        aid = r.le16("AvId"); ln = r.le16("AvLen")
        v = r.take(ln, "AV value")
        if aid == 0:
            need(ln == 0, "MsvAvEOL with AvLen %d" % ln)
            return out, r.i
        need(aid <= 10, "unknown AvId %d" % aid)
        out.append((aid, v))

def ntlmv2_response(b):
    r = Rd(b, "NtChallengeResponse")
    o = {"proof": r.take(16, "NTProofStr")}
    need(r.u8("RespType") == 1, "RespType"); need(r.u8("HiRespType") == 1, "HiRespType")
    need(r.take(2, "Reserved1") == b"\x00\x00", "Reserved1"); need(r.take(4, "Reserved2") == b"\x00" * 4, "Reserved2")
    o["timestamp"] = r.take(8, "TimeStamp"); o["client_challenge"] = r.take(8, "ChallengeFromClient")
    need(r.take(4, "Reserved3") == b"\x00" * 4, "Reserved3 is not zero")
    o["av"], used = av_list(r.b[r.i:], "NTLMv2_CLIENT_CHALLENGE.AvPairs"); r.i += used
    if r.left(): need(r.take(4, "trailing Z(4)") == b"\x00" * 4, "bytes after MsvAvEOL that are not the Z(4) of the computation")
    r.end()
    return o

def _negotiate(tok, zero_version):
    r = Rd(tok, "NEGOTIATE_MESSAGE")
    need(r.take(8, "Signature") == NTLMSSP, "Signature"); need(r.le32("MessageType") == 1, "MessageType is not 1")
    flags = r.le32("NegotiateFlags")
    dom = _descriptor(r, "DomainName"); ws = _descriptor(r, "Workstation")
    ver = _version_slot(r, flags, zero_version)
    start = r.i
    fields = []
    if flags & F_DOMAIN_SUPPLIED: fields.append(dom)
    else: need(dom[1] == 0, "DomainName has a length but NTLMSSP_NEGOTIATE_OEM_DOMAIN_SUPPLIED is clear")
    if flags & F_WORKSTATION_SUPPLIED: fields.append(ws)
    else: need(ws[1] == 0, "Workstation has a length but NTLMSSP_NEGOTIATE_OEM_WORKSTATION_SUPPLIED is clear")
    _tile(fields, start, len(tok))
    cut = lambda f: tok[f[0]:f[0] + f[1]]
    return {"flags": flags, "domain": cut(dom) if flags & F_DOMAIN_SUPPLIED else b"",
            "workstation": cut(ws) if flags & F_WORKSTATION_SUPPLIED else b"", "version": ver}

def ntlm_negotiate(tok): return _two_readings(_negotiate, bytes(tok))

def _authenticate(tok, zero_version):
    r = Rd(tok, "AUTHENTICATE_MESSAGE")
    need(r.take(8, "Signature") == NTLMSSP, "Signature"); need(r.le32("MessageType") == 3, "MessageType is not 3")
    names = ["LmChallengeResponse", "NtChallengeResponse", "DomainName", "UserName", "Workstation", "EncryptedRandomSessionKey"]
    f = [_descriptor(r, n) for n in names]
    flags = r.le32("NegotiateFlags")
    ver = _version_slot(r, flags, zero_version)
    mic = r.take(16, "MIC")
    _tile(f, r.i, len(tok))
    lm, nt, dom, usr, ws, key = [tok[o:o + l] for o, l, _ in f]
    need(len(lm) == 24, "LmChallengeResponse is %d bytes, 24 specified" % len(lm))
    u = bool(flags & F_UNICODE)
    o = {"flags": flags, "version": ver, "mic": mic, "lm": lm, "nt": ntlmv2_response(nt),
         "domain": _name(u, dom, "DomainName"), "user": _name(u, usr, "UserName"), "workstation": _name(u, ws, "Workstation"), "key": key}
    if flags & F_KEY_EXCH: need(len(key) == 16, "EncryptedRandomSessionKey is %d bytes, 16 specified" % len(key))
    return o

def ntlm_authenticate(tok): return _two_readings(_authenticate, bytes(tok))

# ---- DER
def der_len(r):
    b = r.u8("DER length")
    if b < 0x80: return b
    k = b & 0x7f
    need(1 <= k <= 8, "DER length: indefinite or oversized form %#x" % b)
    d = r.take(k, "DER long length")
    need(d[0] != 0, "DER length with a leading zero octet"); n = int.from_bytes(d, "big")
    need(n >= 0x80, "DER length %d in the long form" % n)
    return n

def der_tlv(r, tag, what):
    need(r.u8(what + " tag") == tag, "%s: tag is not %#x" % (what, tag))
    return r.take(der_len(r), what)

def der_uint(r, what):
    c = der_tlv(r, 0x02, what)
    need(len(c) >= 1, what + ": empty INTEGER"); need(c[0] < 0x80, what + ": negative INTEGER")
    need(not (len(c) > 1 and c[0] == 0 and c[1] < 0x80), what + ": INTEGER not minimal")
    return int.from_bytes(c, "big")

def der_explicit(r, n, inner, what):
    q = Rd(der_tlv(r, 0xa0 | n, what), what)
    v = inner(q, what); q.end(); return v

def der_optional(r, n, inner, what):
    if r.left() and r.b[r.i] == (0xa0 | n): return der_explicit(r, n, inner, what)
    return None

def _octets(r, what): return der_tlv(r, 0x04, what)

def _nego_data(r, what):
    q = Rd(der_tlv(r, 0x30, what), what); out = []
    while q.left():
        e = Rd(der_tlv(q, 0x30, "NegoData element"), "NegoData element")
        out.append(der_explicit(e, 0, _octets, "negoToken")); e.end()
    return out

def ts_request(b):
    r = Rd(b, "TSRequest"); q = Rd(der_tlv(r, 0x30, "TSRequest"), "TSRequest"); r.end()
    o = {"version": der_explicit(q, 0, der_uint, "version"), "nego": der_optional(q, 1, _nego_data, "negoTokens"),
         "auth_info": der_optional(q, 2, _octets, "authInfo"), "pub_key_auth": der_optional(q, 3, _octets, "pubKeyAuth"),
         "error_code": der_optional(q, 4, der_uint, "errorCode"), "client_nonce": der_optional(q, 5, _octets, "clientNonce")}
    q.end()
    return o

def ts_password_creds(b, unicode_flag):
    r = Rd(b, "TSPasswordCreds"); q = Rd(der_tlv(r, 0x30, "TSPasswordCreds"), "TSPasswordCreds"); r.end()
    d = der_explicit(q, 0, _octets, "domainName"); u = der_explicit(q, 1, _octets, "userName"); p = der_explicit(q, 2, _octets, "password")
    q.end()
    return {"domain": _name(unicode_flag, d, "domainName"), "user": _name(unicode_flag, u, "userName"), "password": _name(unicode_flag, p, "password")}

def ts_credentials(b, unicode_flag):
    r = Rd(b, "TSCredentials"); q = Rd(der_tlv(r, 0x30, "TSCredentials"), "TSCredentials"); r.end()
    need(der_explicit(q, 0, der_uint, "credType") == 1, "credType is not 1 (password)")
    c = der_explicit(q, 1, _octets, "credentials"); q.end()
    return ts_password_creds(c, unicode_flag)

def nla_message(b):
    """one CredSSP message of the client, down to the NTLM token inside (MS-CSSP 3.1.5)"""
    q = ts_request(b)
    need(q["error_code"] is None, "errorCode in a client message")
    n, a, k = q["nego"], q["auth_info"], q["pub_key_auth"]
    if n is not None and len(n) == 1 and a is None and k is None: return ("nla1", q["version"], ntlm_negotiate(n[0]))
    if n is not None and len(n) == 1 and a is None and k is not None: return ("nla2", q["version"], ntlm_authenticate(n[0]), k)
    if n is None and a is not None and k is None: return ("nla3", q["version"], a)
    raise Bad("TSRequest with a combination of fields no client message has")

# ---- canonical renderings (same text as ocaml/pdus/driver.ml `parsenla`)
def _hx(b): return bytes(b).hex() if b else "-"
def _on(b): return "none" if b is None else _hx(b)
def _nm(n): return "u:" + _ns(n[1]) if n[0] == "u" else "o:" + _hx(n[1])
def canon_negotiate(g): return "neg flags=%d dom=%s ws=%s ver=%s" % (g["flags"], _hx(g["domain"]), _hx(g["workstation"]), _on(g["version"]))
def canon_authenticate(a):
    nt = a["nt"]
    return "auth flags=%d ver=%s mic=%s lm=%s proof=%s ts=%s cc=%s av=%s dom=%s user=%s ws=%s key=%s" % (
        a["flags"], _on(a["version"]), _hx(a["mic"]), _hx(a["lm"]), _hx(nt["proof"]), _hx(nt["timestamp"]), _hx(nt["client_challenge"]),
        ",".join("%d:%s" % (i, _hx(v)) for i, v in nt["av"]) or "-", _nm(a["domain"]), _nm(a["user"]), _nm(a["workstation"]), _hx(a["key"]))
def canon_ts_request(q):
    return "tsreq v=%d nego=%s auth=%s pka=%s err=%s nonce=%s" % (
        q["version"], "none" if q["nego"] is None else "[" + ",".join(_hx(t) for t in q["nego"]) + "]", _on(q["auth_info"]),
        _on(q["pub_key_auth"]), "none" if q["error_code"] is None else str(q["error_code"]), _on(q["client_nonce"]))
def canon_creds(c): return "creds dom=%s user=%s pw=%s" % (_nm(c["domain"]), _nm(c["user"]), _nm(c["password"]))
def canon_nla(m):
    if m[0] == "nla1": return "nla1 v=%d %s" % (m[1], canon_negotiate(m[2]))
    if m[0] == "nla2": return "nla2 v=%d pka=%s %s" % (m[1], _hx(m[3]), canon_authenticate(m[2]))
    return "nla3 v=%d info=%s" % (m[1], _hx(m[2]))
