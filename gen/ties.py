"""Which generated static-tie lemmas (coq/Gen/Tie/*.v, produced by translator/rs2v.py) each property depends on.

  layouts : Rust layout functions `file::fn` whose skeleton tie (S_file__fn.v: hand-written Gallina term = generated
            skeleton of the component![..] declaration) the property's model uses;
  pins    : layouts whose VALUE expressions the property's model reproduces (P_file__fn.v: pinned source text);
  enums   : Rust enums `file::Enum` whose discriminants / TryFromPrimitive domains / From tables the model uses (E_*.v).

  ctl     : Rust CONTROL functions `file::[Type::]fn` whose normal form (state-machine arms, dispatch table, header decision
            tree; C_file__[Type_]fn.v: generated normal form = the one the model is anchored on, Gen/CtlMap.v); a key
            `file::fn@Sfx` names the anchors of Gen/CtlMap<Sfx>.v (proof-level relations of one property).

`check` builds exactly these before the property's proofs; one that fails is a broken tie for this property
(VIOLATION .. no-failing-input-found naming the lemma and the Rust layout, unless the oracle finds an input)."""

CAPS = ["capability::capability_set", "capability::ts_general_capability_set", "capability::ts_bitmap_capability_set",
        "capability::ts_order_capability_set", "capability::ts_bitmap_cache_capability_set",
        "capability::ts_pointer_capability_set", "capability::ts_input_capability_set",
        "capability::ts_brush_capability_set", "capability::cache_entry", "capability::ts_glyph_capability_set",
        "capability::ts_offscreen_capability_set", "capability::ts_virtualchannel_capability_set",
        "capability::ts_sound_capability_set", "capability::ts_multifragment_update_capability_ts"]

FRAMING = ["tpkt::tpkt_header", "x224::x224_header"]

SHARE = ["global::share_control_header", "global::share_data_header"]

# everything global::Client reads from the server
GLOBAL_READ = SHARE + ["global::ts_demand_active_pdu", "global::ts_confirm_active_pdu", "global::ts_deactivate_all_pdu",
                       "global::ts_synchronize_pdu", "global::ts_control_pdu", "global::ts_font_list_pdu",
                       "global::ts_font_map_pdu", "global::ts_set_error_info_pdu"] + CAPS
FASTPATH = ["global::ts_fp_update", "global::ts_cd_header", "global::ts_bitmap_data", "global::ts_fp_update_bitmap",
            "global::ts_colorpointerattribute", "global::ts_fp_update_synchronize",
            "global::ts_fp_systempointerhiddenattribute"]
# everything global::Client writes
INPUT = ["global::ts_input_pdu_data", "global::ts_input_event", "global::ts_pointer_event", "global::ts_keyboard_event"]
GLOBAL_WRITE = SHARE + ["global::ts_confirm_active_pdu", "global::ts_synchronize_pdu", "global::ts_control_pdu",
                        "global::ts_font_list_pdu"] + CAPS + INPUT
GLOBAL_ENUMS = ["global::PDUType", "global::PDUType2", "global::FastPathUpdateType", "global::Action",
                "global::InputEventType", "capability::CapabilitySetType"]

# connection sequence (x224, gcc, sec, license)
CONNECT_READ = FRAMING + ["x224::rdp_neg_req", "x224::x224_crq", "x224::x224_connection_pdu", "gcc::block_header",
                          "gcc::server_core_data", "gcc::server_security_data", "gcc::server_network_data",
                          "sec::security_header", "license::preamble", "license::license_binary_blob",
                          "license::licensing_error_message"]
CONNECT_WRITE = ["x224::rdp_neg_req", "x224::x224_crq", "x224::x224_connection_pdu", "gcc::client_core_data",
                 "gcc::client_security_data", "gcc::client_network_data", "gcc::block_header", "sec::rdp_infos",
                 "sec::rdp_extended_infos"]
CONNECT_ENUMS = ["x224::NegotiationType", "x224::Protocols", "x224::MessageType", "gcc::MessageType", "gcc::Version",
                 "license::MessageType", "license::ErrorCode", "license::StateTransition", "sec::SecurityFlag",
                 "mcs::DomainMCSPDU"]

NTLM = ["ntlm::version", "ntlm::negotiate_message", "ntlm::challenge_message", "ntlm::authenticate_message",
        "ntlm::av_pair", "ntlm::message_signature_ex"]
NTLM_ENUMS = ["ntlm::Negotiate", "ntlm::AvId"]


# control code: the activation state machine of global::Client, its dispatch tables, the two header parsers below it
STATE_CTL = ["global::Client::read", "global::Client::read_data_pdu", "global::Client::write_input_event"]
GLOBAL_DISPATCH = ["global::PDU::from_control", "global::DataPDU::from_pdu", "global::FastPathUpdate::from_fp"]
FRAMING_CTL = ["tpkt::Client::read"]
SESSION_CTL = STATE_CTL + GLOBAL_DISPATCH + ["mcs::Client::read"] + FRAMING_CTL + ["client::KeyboardLayout::from"]
CONNECT_CTL = FRAMING_CTL + ["x224::Client::read_connection_confirm", "mcs::Client::read", "license::parse_payload",
                             "license::client_connect"]


def u(*ls):
    out = []
    for l in ls:
        for x in l:
            if x not in out:
                out.append(x)
    return out


def T(layouts=(), pins=(), enums=(), ctl=()):
    return {"layouts": list(layouts), "pins": list(pins), "enums": list(enums), "ctl": list(ctl)}


SESSION = u(FRAMING, GLOBAL_READ, FASTPATH, GLOBAL_WRITE)

TIES = {
    # NLA gate: CredSSP over the NTLM messages of LayoutsNtlmAuth.v / Ntlm.v
    "C01": T(NTLM, NTLM, NTLM_ENUMS),
    # negotiated security honoured: x224 negotiation and the connection sequence behind it
    "C02": T(u(CONNECT_READ, ["x224::x224_connection_pdu"]), ["x224::x224_connection_pdu", "x224::rdp_neg_req"],
             ["x224::NegotiationType", "x224::Protocols", "x224::MessageType"],
             ctl=FRAMING_CTL + ["x224::Client::read_connection_confirm"]),
    # every emitted PDU well formed: all layouts the client writes, with their value expressions
    # (network level authentication: the NTLM messages the client writes / reads, LayoutsNtlmAuth.v)
    "C04": T(u(FRAMING, CONNECT_WRITE, GLOBAL_WRITE, NTLM[:5]), u(CONNECT_WRITE, GLOBAL_WRITE, ["tpkt::tpkt_header"], NTLM[:5]),
             u(CONNECT_ENUMS, GLOBAL_ENUMS, ["sec::InfoFlag", "global::PointerFlag"], NTLM_ENUMS)),
    # hostile bytes during connect
    "C05": T(CONNECT_READ, [], CONNECT_ENUMS,
             ctl=CONNECT_CTL),
    # hostile bytes during the session
    "C06": T(SESSION, GLOBAL_WRITE, GLOBAL_ENUMS,
             ctl=SESSION_CTL),
    # hostile bytes during NLA
    "C07": T(NTLM, [], NTLM_ENUMS),
    # bitmap rectangles exactly once
    "C10": T(u(FRAMING, SHARE, FASTPATH), [], ["global::FastPathUpdateType", "global::PDUType", "global::PDUType2"],
             ctl=SESSION_CTL),
    # input events
    "C11": T(u(FRAMING, SHARE, INPUT), u(SHARE, INPUT),
             ["global::InputEventType", "global::PointerFlag", "global::PDUType", "global::PDUType2"],
             ctl=SESSION_CTL),
    # activation state machine
    "C12": T(SESSION, GLOBAL_WRITE, GLOBAL_ENUMS,
             ctl=SESSION_CTL + ["global::Client::read@C12"]),
    # framing
    "C13": T(FRAMING, ["tpkt::tpkt_header"], [],
             ctl=FRAMING_CTL),
    "C14": T(FRAMING, ["tpkt::tpkt_header"], []),
    # AUTHENTICATE accepted by a reference server
    "C15": T(NTLM, NTLM, NTLM_ENUMS),
    # NTLM session security: the signature structure
    "C16": T(["ntlm::message_signature_ex"], ["ntlm::message_signature_ex"], []),
    # encoders / decoders inverse: the GCC blocks and every layout with a round-trip theorem
    "C18": T(u(["gcc::client_core_data", "gcc::server_core_data", "gcc::client_security_data", "gcc::server_security_data",
                "gcc::client_network_data", "gcc::server_network_data", "gcc::block_header"], GLOBAL_READ, GLOBAL_WRITE),
             ["gcc::client_core_data", "gcc::client_network_data", "gcc::block_header"],
             u(["gcc::Version", "gcc::MessageType"], GLOBAL_ENUMS)),
    # whole connection: everything read and written from the negotiation to the finalization
    "C03": T(u(CONNECT_READ, CONNECT_WRITE, GLOBAL_READ, GLOBAL_WRITE, FRAMING), u(CONNECT_WRITE, GLOBAL_WRITE, ["tpkt::tpkt_header"]),
             u(CONNECT_ENUMS, GLOBAL_ENUMS, ["sec::InfoFlag"]),
             ctl=u(CONNECT_CTL, SESSION_CTL)),
    # secrets: the connection request, the NTLM messages, the client info and everything else the connect sequence writes
    "C17": T(u(CONNECT_READ, CONNECT_WRITE, NTLM), u(["x224::rdp_neg_req", "x224::x224_connection_pdu", "sec::rdp_infos"], NTLM),
             u(["x224::NegotiationType", "x224::Protocols", "sec::InfoFlag", "sec::SecurityFlag"], NTLM_ENUMS)),
}


def of(pid):
    t = TIES.get(pid, T())
    return t["layouts"], t["pins"], t["enums"]


def ctl_of(pid):
    return TIES.get(pid, T())["ctl"]
