"""C04: every PDU the client emits is well formed under a strict independent parser.
The real crate writes the PDUs of a whole connection (connection request; connect-initial with the GCC client
data blocks; erect-domain, attach-user, channel joins; client info; confirm-active, synchronize, control x2,
font-list; input PDUs; disconnect ultimatum) over an in-memory scripted server, for configurations drawn from
all of Unicode; every frame is judged by (a) gen/strictpdu.py, strict parsers written from the standards,
(b) the strict parsers of coq/StrictPdu.v, extracted, applied to the IMPLEMENTATION's bytes, and (c) compared
with what the configuration says must have been sent; the model's emitters (coq/ClientPdus.v) must produce the
same bytes (the diff of the pipeline).
Network level authentication: the real crate's NTLM NEGOTIATE (`negotiate`), AUTHENTICATE (`auth`, Ntlm::read_challenge_message
under preset randomness), the four CredSSP DER writers (`cssp req|auth|cred|info`) and whole cssp_connect exchanges over a
scripted transport (`csspgate`); every token / TSRequest / (unsealed) TSCredentials is judged by the python strict parsers of
gen/strictpdu.py (MS-NLMP / MS-CSSP), by the extracted strict parsers of coq/StrictNla.v, and compared with the configuration;
the model (coq/Ntlm.v, CsspGate.v, CsspGateExec.v) must produce the same bytes."""
import os, subprocess, struct
from common import *
from rdp import *
from rdpconn import *
import strictpdu as S
import nlmp, credssp

GROUP = "pdus"
MODEL_FILES = ["coq/ClientPdus.v", "coq/Msg.v", "coq/LayoutsGlobal.v", "coq/LayoutsConnect.v", "coq/Global.v", "coq/Tpkt.v",
               "coq/Ntlm.v", "coq/LayoutsNtlmAuth.v", "coq/Utf.v", "coq/CsspGate.v", "coq/CsspGateExec.v", "coq/NtlmSeal.v"]
PROFILES = ["debug", "release"]
RULE = ("client name / domain / user / password from the classes {empty, ASCII 1..64, Latin-1, BMP CJK, non-BMP (surrogate pairs), mixed, "
        "embedded NUL, scalar-value boundaries U+7F/80/7FF/800/D7FF/E000/FFFF/10000/10FFFF, 14..17 UTF-16 code units with and without a "
        "surrogate pair across the 15-unit cut, 15..17 UTF-8 bytes with a character across byte 16, over-long (300 code points; one "
        "frame beyond the 16-bit TPKT length, which must be refused)}; credential totals sweeping the 1-byte/2-byte PER length switch; "
        "screen sizes over 16-bit boundaries; all 19 keyboard layouts; selected protocol 0/1/2/8; server version RDP4 / RDP5+ / other "
        "(with and without extended info); user ids 1001, 1002, 1004, 65535 and random; share ids over 32-bit "
        "boundaries; pointer / keyboard events over 16-bit boundaries and every button x press state; connection requests for every "
        "offered-protocol mask in a boundary set x restricted-admin.  Every frame the implementation wrote is parsed by the python "
        "strict parsers AND by the extracted Coq strict parsers, the two decodes must agree, must equal the configuration's values, and "
        "the frame sequence must be the mandated one.  Network level authentication: domain / user / password from {empty, ASCII, "
        "Latin-1, BMP CJK, non-BMP, mixed, long (300)} x password and NT-hash mode x all 16 combinations of the CHALLENGE flags "
        "UNICODE / VERSION / TARGET_INFO / KEY_EXCH, target-info blocks from the bare timestamp to an NT response of exactly 65535 "
        "bytes (sent) and 65536 (refused), every AV id next to the timestamp; the four CredSSP DER writers on payload sizes across "
        "every DER length form (0, 1, 127, 128, 255, 256, 65535, 65536); whole cssp_connect exchanges (password / hash / "
        "restricted admin, UNICODE and OEM, VERSION on / off) whose third message is unsealed with the MS-NLMP reference.  Every "
        "token, TSRequest and TSCredentials plaintext is parsed by the python strict parser AND by the extracted Coq strict parser "
        "(they must agree) and the decoded fields must equal the configuration and the CHALLENGE.  Non-trivial = a run that "
        "emitted at least one frame / token; distinct = distinct (op, string classes, version class / flag combination, number "
        "of events, outcome).")
TRUSTED_BASE = ["Coq 8.16.1 kernel (vm_compute in the fixed-layout lemmas and the non-vacuity run)",
                "hand-written model coq/ClientPdus.v (+ Msg.v, LayoutsGlobal.v, LayoutsConnect.v, Global.v, Tpkt.v) tied to /repo by this byte-for-byte correspondence run",
                "coq/StrictPdu.v: the reading of X.224 / T.125 / T.124 / MS-RDPBCGR embodied in the strict parsers (the spec of the theorems)",
                "coq/StrictNla.v: the reading of MS-NLMP 2.2.1.1 / 2.2.1.3 / 2.2.2.1 / 2.2.2.7 and MS-CSSP 2.2.1 / 2.2.1.2 (X.690 DER) embodied in the strict parsers of the NTLM tokens and CredSSP structures; readings accepted both ways are listed in its header",
                "hand-written models coq/Ntlm.v + LayoutsNtlmAuth.v (NTLM handshake), coq/CsspGate.v + CsspGateExec.v (cssp_connect, the four DER writers = transliterated yasna output) tied to /repo by the byte-for-byte run of the ops negotiate / auth / cssp / csspgate; harness/src/ntlmauth.rs, codec18_der.rs, csspgate.rs and the hooks model::rnd::verif, model::link::verif, cssp::verif_create_ts_*",
                "gen/nlmp.py (MS-NLMP reference used to UNSEAL the third CredSSP message), gen/credssp.py (server replies)",
                "extraction (ExtrOcamlBasic) + ocaml/pdus/driver.ml (UTF-8 decoding of case lines, rendering)", "Rust harness/src/pdus.rs + hooks x224::Client::verif_new, RdpClient::verif_new",
                "gen/strictpdu.py (independent python strict parsers, the oracle), gen/rdpconn.py + gen/rdp.py (scripted server)",
                "external code modelled, not verified: yasna's DER writer (connect-initial envelope, transliterated in ClientPdus.v and compared on every case), Rust's str / encode_utf16"]
ASSUMPTIONS = ["NLA theorems: any md5 / hmac with 16-byte digests, any uppercase mapping, any decoder of the server's replies, any reply stream; the CHALLENGE ranges over challenge_bytes c with wf_challenge c (every field any value), its echoed parts well formed: TargetInfo = AV pairs with ids 1..10 closed by a zero-length MsvAvEOL with nothing after it, the MsvAvTimestamp the client picks 8 bytes -- the complement is the known finding C04-echo (theorem C04_echoed_challenge_refuted)",
               "names are decoded as UTF-16LE under NTLMSSP_NEGOTIATE_UNICODE; without the flag the client sends the String's UTF-8 bytes where MS-NLMP wants the OEM code page: identical for ASCII names, not decidable by any parser for others (observation of C15, not judged here)",
               "sizes of the sealed blobs / public key below 2^56 bytes (usize) for the DER length lemmas; TSPasswordCreds strings are in the character set of the CHALLENGE (MS-CSSP does not fix one in the ASN.1)",
               "PDUs described by a PER length are covered up to 16383 bytes of user data (one X.691 fragment); beyond that the client uses the de-facto 15-bit RDP form; the property's quantifier (1..64 code points per string) stays far below",
               "the server-imposed maximum sizes of the credential strings (512 bytes in MS-RDPBCGR 2.2.1.11.1.1) are server policy, not part of well-formedness",
               "the two channel joins are emitted in HashMap order; the harness repeats the run until the I/O channel is asked first and the model emits them in that order",
               "gcc::Version::from has its arms swapped in /repo today (defect #20, repaired by the C18 work): the model follows the code behind the switch ClientPdus.version_arms_swapped; the theorems hold for both settings"]

LAYOUTS = [0x401, 0x402, 0x404, 0x405, 0x406, 0x407, 0x408, 0x409, 0x40a, 0x40b, 0x40c, 0x40d, 0x40e, 0x40f, 0x410, 0x411, 0x412, 0x413, 0x414]
V16 = [0, 1, 2, 127, 128, 255, 256, 257, 0x7fff, 0x8000, 0x8001, 0xfffe, 0xffff, 0x1234, 0xff00, 0x00ff, 800, 600, 1024, 768]
V32 = [0, 1, 0xff, 0x100, 0xffff, 0x10000, 0x000103ea, 0x7fffffff, 0x80000000, 0xfffffffe, 0xffffffff, 0x12345678]
UIDS = [1001, 1002, 1004, 1005, 1007, 0x7fff + 1001, 65534, 65535]   # not 1003: a user id equal to the I/O channel id makes the client's channel lookup ambiguous (C03's business)
VERSIONS = [0x00080001, 0x00080004, 0x00080005, 0, 0xffffffff]
ARMS_SWAPPED = False      # mirrors ClientPdus.version_arms_swapped (switch with it when defect #20 is repaired in /repo)

# ------------------------------------------------------------------ strings
def s_ascii(rng, n): return "".join(chr(rng.randrange(0x20, 0x7f)) for _ in range(n))
def s_latin1(rng, n): return "".join(chr(rng.randrange(0xa0, 0x100)) for _ in range(n))
def s_cjk(rng, n): return "".join(chr(rng.randrange(0x4e00, 0xa000)) for _ in range(n))
def s_astral(rng, n): return "".join(chr(rng.choice([0x10000, 0x1f600, 0x1f4a9, 0x2070e, 0x10ffff, rng.randrange(0x10000, 0x110000)])) for _ in range(n))
def scalar(rng):
    while True:
        c = rng.choice([rng.randrange(0x80), rng.randrange(0x800), rng.randrange(0x10000), rng.randrange(0x110000)])
        if not (0xd800 <= c < 0xe000): return c
def s_mixed(rng, n): return "".join(chr(scalar(rng)) for _ in range(n))
BOUNDARY_CHARS = [0x0, 0x1, 0x7f, 0x80, 0x7ff, 0x800, 0xd7ff, 0xe000, 0xfffd, 0xffff, 0x10000, 0x10ffff]

def units(s): return len(s.encode("utf-16-le")) // 2

def name_boundaries():
    """14..17 UTF-16 code units and 15..17 UTF-8 bytes, with multi-unit / multi-byte characters placed on the cut"""
    out = [""]
    e = "\U0001f600"; a = "é"; c = "中"
    for n in (13, 14, 15, 16, 17): out.append("a" * n)
    out += ["a" * 13 + e, "a" * 14 + e, "a" * 15 + e, "a" * 12 + e + "b", "a" * 13 + e + "b", e * 7, e * 7 + "a", e * 8, "a" + e * 7, "a" + e * 8,
            a * 7, a * 7 + "a", a * 8, "a" + a * 7, "a" + a * 8, a * 10, a * 15, a * 16, a * 17, "a" * 15 + a, "a" * 14 + a, "a" * 14 + c, "a" * 13 + c, "a" * 15 + c,
            c * 5, c * 5 + "a", c * 5 + "ab", c * 15, c * 16, "a" * 12 + e, "a" * 13 + "\U00010000", "a" * 14 + "\U0010ffff", "a\x00b", "\x00", "\x00abc",
            "a" * 14 + "\x00", "a" * 15 + "\x00", "퟿￿", "rdp-rs", "mstsc-rs"]
    return out

def rand_string(rng, maxlen=64):
    k = rng.randrange(9)
    n = rng.choice([0, 1, 2, 7, 8, 15, 16, 17, 31, 32, 33, 63, 64, rng.randrange(1, maxlen + 1)])
    if k == 0: return ""
    if k == 1: return s_ascii(rng, n)
    if k == 2: return s_latin1(rng, n)
    if k == 3: return s_cjk(rng, n)
    if k == 4: return s_astral(rng, n)
    if k == 5: return s_mixed(rng, n)
    if k == 6: return "".join(chr(rng.choice(BOUNDARY_CHARS)) for _ in range(min(n, 20)))
    if k == 7: return s_ascii(rng, n // 2) + s_astral(rng, 1) + s_ascii(rng, n // 2)
    return rng.choice(name_boundaries())

# ------------------------------------------------------------------ case lines
def activation(sid, uid):
    return [slow_frame(demand_active(share_id=sid), uid=uid), slow_frame(synchronize(share_id=sid), uid=uid),
            slow_frame(control(4, share_id=sid), uid=uid), slow_frame(control(2, uid, 1002, share_id=sid), uid=uid),
            slow_frame(font_map(share_id=sid), uid=uid)]

def pdus_case(sel=0, auto=0, w=800, h=600, layout=0x409, uid=1004, version=0x00080004, sid=0x000103ea,
              name="rdp-rs", dom="", user="", pw="", events=()):
    fr = conversation(uid=uid, order="g", version=version)[1:] + activation(sid, uid)
    e = lambda s: hx(s.encode("utf-8"))
    line = "pdus %d %d %d %d %d %d %d %d %s %s %s %s %s %s" % (sel, auto, w, h, layout, uid, version, sid, e(name), e(dom), e(user), e(pw),
           ",".join(events) if events else "-", " ".join(hx(f) for f in fr))
    cfg = dict(op="pdus", sel=sel, auto=auto, w=w, h=h, layout=layout, uid=uid, version=version, sid=sid,
               name=name, dom=dom, user=user, pw=pw, events=list(events))
    return (line, cfg)

def cr_case(offered, ram):
    return ("cr %d %d" % (offered, ram), dict(op="cr", offered=offered, ram=ram))

def core_case(w, h, layout, sel, name):
    return ("core %d %d %d %d %s" % (w, h, layout, sel, hx(name.encode("utf-8"))), dict(op="core", w=w, h=h, layout=layout, sel=sel, name=name))

def rand_event(rng):
    v = lambda: rng.choice(V16) if rng.random() < 0.6 else rng.randrange(65536)
    if rng.random() < 0.6: return "P:%d:%d:%d:%d" % (v(), v(), rng.randrange(4), rng.randrange(2))
    return "K:%d:%d" % (v(), rng.randrange(2))


# ================================================================== network level authentication: case lines
NEG_TOKEN = bytes.fromhex("4e544c4d53535000010000003582086000000000000000000000000000000000")
F_UNI, F_VER, F_TI, F_KX = 0x00000001, 0x02000000, 0x00800000, 0x40000000
FLAG_COMBOS = [(nlmp.CLIENT_FLAGS & ~(F_UNI | F_KX)) | (F_UNI if u else 0) | (F_VER if v else 0) | (F_TI if t else 0) | (F_KX if k else 0)
               for u in (1, 0) for v in (0, 1) for t in (1, 0) for k in (1, 0)]

def dcps(s): return ".".join("%x" % ord(c) for c in s) or "-"
def uncps(x): return "" if x == "-" else "".join(chr(int(c, 16)) for c in x.split("."))
def rbytes(rng, n): return bytes(rng.randrange(256) for _ in range(n))

# credential classes; letters whose uppercase differs between Rust and python (C15's "special" class) are left out:
# the AUTHENTICATE layout does not depend on the case mapping
NLA_CLASSES = {
    "empty": lambda rng: "",
    "ascii": lambda rng: "".join(rng.choice("abcXYZ019_-. $") for _ in range(rng.randrange(1, 12))),
    "latin1": lambda rng: "".join(rng.choice("éàüñÆøçÿ¿") for _ in range(rng.randrange(1, 8))),
    "cjk": lambda rng: "".join(rng.choice("日本語中文한국어漢字") for _ in range(rng.randrange(1, 8))),
    "nonbmp": lambda rng: "".join(rng.choice("\U0001F600\U00010437\U0001D11E\U00020BB7\U0010FFFF\U00010000\U0001D800") for _ in range(rng.randrange(1, 5))),
    "mixed": lambda rng: "".join(rng.choice("aBcDéÉσΣж\U00010437Q日\U0001F600") for _ in range(rng.randrange(2, 12))),
    "long": lambda rng: "".join(rng.choice("abcDEFé日\U0001F600") for _ in range(300)),
}

def nla_target_info(rng, kind="typical"):
    ts = (7, rbytes(rng, 8))
    if kind == "bare": return nlmp.av_pairs([ts])
    if kind == "typical":
        return nlmp.av_pairs([(2, nlmp.utf16("DOM")), (1, nlmp.utf16("SRV")), (4, nlmp.utf16("dom.example")), (3, nlmp.utf16("srv.dom.example")), ts])
    if kind == "random":
        ids = [rng.choice([1, 2, 3, 4, 5, 6, 8, 9, 10]) for _ in range(rng.randrange(0, 7))]
        pairs = [(i, rbytes(rng, rng.choice([0, 1, 2, 8, 20, 300]))) for i in ids]
        pairs.insert(rng.randrange(len(pairs) + 1), ts)
        return nlmp.av_pairs(pairs)
    if isinstance(kind, int):           # exactly `kind` bytes
        need = kind - 12 - 4 - 4
        return nlmp.av_pairs([ts, (9, rbytes(rng, need))])
    raise ValueError(kind)

def nla_auth_case(rng, dom, user, pw, flags, mode="pw", ti=None, pre=None, post=None):
    ti = nla_target_info(rng) if ti is None else ti
    sc, nonce, key = rbytes(rng, 8), rbytes(rng, 8), rbytes(rng, 16)
    pre = rbytes(rng, rng.choice([0, 0, 6, 31])) if pre is None else pre
    post = rbytes(rng, rng.choice([0, 0, 5])) if post is None else post
    chal = nlmp.challenge_message(flags, sc, ti, target_name=pre, version=rbytes(rng, 8), post=post)
    secret = dcps(pw) if mode == "pw" else nlmp.nt_hash(pw).hex()
    return ("auth %s %s %s %s %s %s %s %s" % (mode, dcps(dom), dcps(user), secret, dcps(user.upper()), nonce.hex(), key.hex(), chal.hex()), None)

def nla_gate_case(rng, dom, user, pw, flags, mode="pw", ra=False, cert=0):
    import c01
    c = c01.Cfg(rng, user, dom, pw, flags, mode=mode, ra=ra, cert=cert)
    honest = c.s2c().seal(credssp.le_add(credssp.pubkey(c.cert), 1))
    return (c.line([c.reply1, credssp.ts_request(pub_key_auth=honest)]), None)

def nla_cases(tier, rng):
    quick = tier == "quick"
    cases = [("negotiate", None)]
    names = list(NLA_CLASSES)
    # ---- AUTHENTICATE: every credential class x all 16 flag combinations (x both modes for the first class member)
    for cl in names:
        for k, flags in enumerate(FLAG_COMBOS):
            dom = NLA_CLASSES[rng.choice(names)](rng); user = NLA_CLASSES[cl](rng); pw = NLA_CLASSES[rng.choice(names)](rng)
            cases.append(nla_auth_case(rng, dom, user, pw, flags, "pw" if k % 2 == 0 else "hash", ti=nla_target_info(rng, rng.choice(["bare", "typical", "random"]))))
            cases.append(nla_auth_case(rng, NLA_CLASSES[cl](rng), NLA_CLASSES[rng.choice(names)](rng), pw, flags, "hash" if k % 2 == 0 else "pw"))
    # non-BMP names of every surrogate shape, UNICODE on, all VERSION / TARGET_INFO combinations
    for s in ["\U0001F600", "D\U00020000M", "user\U0001D800", "\U00010000\U0010FFFF", "a\U0001F511b\U0001F511"]:
        for flags in FLAG_COMBOS[:4]:
            cases.append(nla_auth_case(rng, s, s[::-1], s, flags, "pw", ti=nla_target_info(rng, "typical")))
    # target-info sizes: bare timestamp .. an NT response of exactly 65535 bytes (sent) / 65536 (refused)
    F = nlmp.CLIENT_FLAGS
    for size in [24, 100, 255, 256, 1000, 4096] + ([65535 - 44, 65536 - 44] if True else []):
        for flags in (F | F_TI, F | F_VER | F_TI):
            cases.append(nla_auth_case(rng, "Dom", "User", "pw", flags, "pw", ti=nla_target_info(rng, size), pre=b"", post=b""))
    for aid in range(1, 11):
        if aid == 7: continue
        for order in (0, 1):
            pairs = [(aid, rbytes(rng, 6)), (7, rbytes(rng, 8))]
            if order: pairs.reverse()
            cases.append(nla_auth_case(rng, "Dom", "Usér", "pw", rng.choice(FLAG_COMBOS), "pw", ti=nlmp.av_pairs(pairs)))
    # names at the 16-bit boundary of the descriptors
    cases.append(nla_auth_case(rng, "d", "a" * 32767, "p", F, "pw"))
    cases.append(nla_auth_case(rng, "D" * 32768, "u", "p", F, "hash"))
    # the known finding C04-echo: server material echoed unvalidated (bytes after MsvAvEOL, MsvAvEOL with a value, timestamp not 8 bytes)
    ts8 = (7, bytes(range(8)))
    for ti in [nlmp.av_pairs([ts8]) + b"\x09\x09", nlmp.av_pairs([(2, b"D\x00"), ts8]) + b"\x00" * 4 + b"\x01",
               nlmp.av_pairs([ts8])[:-4] + b"\x00\x00\x03\x00abc",
               nlmp.av_pairs([(7, b"\x00\x01\x02\x03")]), nlmp.av_pairs([(7, b"")]), nlmp.av_pairs([(7, bytes(range(12))), (1, b"S\x00")])]:
        cases.append(nla_auth_case(rng, "Dom", "User", "pw", F | F_VER, "pw", ti=ti, pre=b"", post=b""))
    for _ in range(40 if quick else 1500):
        dom, user, pw = (NLA_CLASSES[rng.choice(names)](rng) for _ in range(3))
        cases.append(nla_auth_case(rng, dom, user, pw, rng.choice(FLAG_COMBOS), rng.choice(["pw", "hash"]), ti=nla_target_info(rng, "random")))
    # ---- the four CredSSP DER writers, payload sizes across every DER length form
    sizes = [0, 1, 2, 100, 113, 114, 115, 127, 128, 129, 200, 255, 256, 257, 1000, 65535, 65536] + ([] if quick else [70000, 200000])
    for n in sizes:
        b = rbytes(rng, min(n, 64)) + b"\xa5" * max(0, n - 64)
        cases.append(("cssp req %s" % hx(b), None))
        cases.append(("cssp auth %s %s" % (hx(b), hx(rbytes(rng, rng.choice([0, 16, 26, 300])))), None))
        cases.append(("cssp auth %s %s" % (hx(rbytes(rng, 40)), hx(b)), None))
        cases.append(("cssp info %s" % hx(b), None))
        if n <= 65536:
            cases.append(("cssp cred %s %s %s" % (hx(b), hx(rbytes(rng, 7)), hx(rbytes(rng, 9))), None))
            cases.append(("cssp cred %s %s %s" % (hx(b""), hx(b), hx(b)), None))
    for cl in names:
        d, u, pw = (NLA_CLASSES[cl](rng), NLA_CLASSES[rng.choice(names)](rng), NLA_CLASSES[rng.choice(names)](rng))
        cases.append(("cssp cred %s %s %s" % (hx(nlmp.utf16(d)), hx(nlmp.utf16(u)), hx(nlmp.utf16(pw))), None))
        cases.append(("cssp cred %s %s %s" % (hx(d.encode()), hx(u.encode()), hx(pw.encode())), None))
    # ---- whole CredSSP exchanges: the third message is unsealed and its TSCredentials parsed
    gate = []
    for cl in names:
        for flags in (F, F | F_VER, F & ~F_UNI, (F | F_VER) & ~F_UNI):
            dom, user, pw = NLA_CLASSES[rng.choice(names)](rng), NLA_CLASSES[cl](rng), NLA_CLASSES[rng.choice(names)](rng)
            gate.append((dom, user, pw, flags, rng.choice(["pw", "hash"]), rng.random() < 0.25, rng.randrange(2)))
    gate.append(("D\U00020000M", "user\U0001D800", "p\U0001F511", F | F_VER, "pw", False, 0))
    gate.append(("Dom", "User", "secret", F | F_VER, "pw", True, 1))
    gate.append(("Dom", "User", "secret", F, "hash", False, 1))
    if quick: gate = gate[::2] + gate[-3:]
    for g in gate: cases.append(nla_gate_case(rng, *g))
    return cases

# ================================================================== network level authentication: the oracle
_ndrv = None
_ncache = {}
def coq_parse_nla(kind, hexbytes, extra=""):
    """the extracted strict parsers of coq/StrictNla.v as a co-process: canonical text or 'reject'"""
    global _ndrv
    key = (kind, extra, hexbytes)
    if key in _ncache: return _ncache[key]
    if _ndrv is None or _ndrv.poll() is not None:
        path = os.path.join(os.path.dirname(os.path.dirname(os.path.abspath(__file__))), "ocaml", "pdus", "driver")
        _ndrv = subprocess.Popen([path], stdin=subprocess.PIPE, stdout=subprocess.PIPE)
    _ndrv.stdin.write(("parsenla %s %s%s\n" % (kind, extra + " " if extra else "", hexbytes or "-")).encode()); _ndrv.stdin.flush()
    r = _ndrv.stdout.readline().decode().strip()
    if len(_ncache) < 100000: _ncache[key] = r
    return r

def both(kind, b, pyparse, pycanon, extra=""):
    """-> (decoded, None) or (None, why): the python strict parser and the extracted Coq strict parser on the same bytes"""
    try:
        d = pyparse(b)
        py = pycanon(d)
    except S.Bad as e:
        return None, "rejected by the strict parser: %s" % e
    cq = coq_parse_nla(kind, bytes(b).hex(), extra)
    if cq != py:
        return None, "the extracted Coq strict parser says %r, the python strict parser %r" % (cq[:200], py[:200])
    return d, None

def challenge_parts(chal):
    """what the client takes from a CHALLENGE_MESSAGE: flags, the TargetInfo bytes"""
    flags = struct.unpack_from("<I", chal, 20)[0]
    ti_len, _, ti_off = struct.unpack_from("<HHI", chal, 40)
    return flags, chal[ti_off:ti_off + ti_len]

def echo_wellformed(ti):
    """TargetInfo = AV pairs (ids 1..10) closed by a zero-length MsvAvEOL, nothing after it, and the timestamp the client
    picks (the last one) has 8 bytes: the hypothesis of C04_all_parse; its complement is the known finding C04-echo"""
    try:
        pairs, used = S.av_list(ti)
    except S.Bad:
        return False
    ts = [v for i, v in pairs if i == 7]
    return used == len(ti) and bool(ts) and len(ts[-1]) == 8

def judge_authenticate(a, dom, user, flags, ti, nonce):
    """decoded AUTHENTICATE fields against the configuration and the CHALLENGE"""
    if a["flags"] != flags: return "NegotiateFlags %08x are not the negotiated ones %08x" % (a["flags"], flags)
    if (a["version"] is not None) != bool(flags & F_VER): return "Version present = %s with NEGOTIATE_VERSION = %s" % (a["version"] is not None, bool(flags & F_VER))
    uni = bool(flags & F_UNI)
    for what, got, want in (("DomainName", a["domain"], dom), ("UserName", a["user"], user), ("Workstation", a["workstation"], "")):
        if uni:
            if got != ("u", cps(want)): return "%s decodes to %s, configured %s" % (what, S._nm(got), S._ns(cps(want)))
        elif all(ord(c) < 0x80 for c in want):
            if got != ("o", want.encode("ascii")): return "%s is %s, configured %r" % (what, S._nm(got), want)
        # OEM character set with a non-ASCII name: not decidable (see ASSUMPTIONS)
    pairs, _ = S.av_list(ti)
    nt = a["nt"]
    if nt["av"] != pairs: return "AV pairs of the NTLMv2 response are not the CHALLENGE's"
    if nt["timestamp"] != [v for i, v in pairs if i == 7][-1]: return "TimeStamp is not the CHALLENGE's MsvAvTimestamp"
    if nt["client_challenge"] != nonce: return "ChallengeFromClient is not the client nonce"
    if len(a["key"]) != 16: return "EncryptedRandomSessionKey of %d bytes" % len(a["key"])
    return None

def oracle_nla(line, out):
    t = line.split()
    res = out.split(" #")[0].split()
    if not res or res[0] in ("panic", "spin", "crashed"): return "the client crashed (%s) while building a token" % (res[0] if res else "no output")
    op = t[0]
    if op == "negotiate":
        if res[0] != "ok": return "no NEGOTIATE token: " + " ".join(res)[:100]
        g, why = both("neg", bytes.fromhex(res[1]), S.ntlm_negotiate, S.canon_negotiate)
        if why: return "NEGOTIATE_MESSAGE " + why
        want = {"flags": nlmp.CLIENT_FLAGS, "domain": b"", "workstation": b"", "version": None}
        return None if g == want else "NEGOTIATE_MESSAGE decodes to %s" % S.canon_negotiate(g)
    if op == "auth":
        if res[0] != "ok": return None                 # a refusal emits nothing (whether it must exist is C15's question)
        dom, user = uncps(t[2]), uncps(t[3])
        nonce, chal = bytes.fromhex(t[6]), bytes.fromhex(t[8])
        flags, ti = challenge_parts(chal)
        a, why = both("auth", bytes.fromhex(res[1]), S.ntlm_authenticate, S.canon_authenticate)
        if why: return "AUTHENTICATE_MESSAGE " + why
        return judge_authenticate(a, dom, user, flags, ti, nonce)
    if op == "cssp":
        if not res[0].startswith("ok:"): return "DER writer failed: " + res[0]
        b = bytes.fromhex(res[0][3:])
        arg = lambda k: bytes.fromhex(t[k]) if t[k] != "-" else b""
        if t[1] == "cred":
            for uni in (False, True):
                try:
                    want = {"domain": S._name(uni, arg(2), "d"), "user": S._name(uni, arg(3), "u"), "password": S._name(uni, arg(4), "p")}
                except S.Bad:
                    continue                               # the test bytes are not UTF-16: only the OEM reading applies
                c, why = both("creds", b, lambda x: S.ts_credentials(x, uni), S.canon_creds, "1" if uni else "0")
                if why: return "TSCredentials " + why
                if c != want: return "TSCredentials decodes to %s" % S.canon_creds(c)
            return None
        q, why = both("tsreq", b, S.ts_request, S.canon_ts_request)
        if why: return "TSRequest " + why
        want = {"version": 2, "nego": None, "auth_info": None, "pub_key_auth": None, "error_code": None, "client_nonce": None}
        if t[1] == "req": want["nego"] = [arg(2)]
        elif t[1] == "auth": want["nego"] = [arg(2)]; want["pub_key_auth"] = arg(3)
        elif t[1] == "info": want["auth_info"] = arg(2)
        return None if q == want else "TSRequest decodes to %s" % S.canon_ts_request(q)
    if op == "csspgate":
        dom, user, mode, ra = uncps(t[2]), uncps(t[3]), t[1], t[6] == "1"
        pw = uncps(t[4]) if mode == "pw" else ""
        rnd = bytes.fromhex(t[9]); nonce, key = rnd[:8], rnd[8:]
        msgs = [bytes.fromhex(h) for h in res[2:]]
        try:
            chal = S.ts_request(bytes.fromhex(t[10].split(",")[0]))["nego"][0]
            flags, ti = challenge_parts(chal)
        except Exception:
            chal = None
        c2s = nlmp.session(key)[0]
        for k, m in enumerate(msgs):
            d, why = both("nla", m, S.nla_message, S.canon_nla)
            if why: return "CredSSP message %d %s" % (k + 1, why)
            if d[0] != "nla%d" % (k + 1): return "CredSSP message %d is a %s" % (k + 1, d[0])
            if d[1] != 2: return "TSRequest version %d" % d[1]
            if k == 0:
                if d[2] != {"flags": nlmp.CLIENT_FLAGS, "domain": b"", "workstation": b"", "version": None}: return "NEGOTIATE_MESSAGE decodes to %s" % S.canon_negotiate(d[2])
            elif k == 1:
                if chal is None: return "an AUTHENTICATE without a CHALLENGE"
                why = judge_authenticate(d[2], dom, user, flags, ti, nonce)
                if why: return why
                if c2s.unseal(d[3]) is None: return "pubKeyAuth does not unseal under the client-to-server keys"
            else:
                plain = c2s.unseal(d[2])
                if plain is None: return "authInfo does not unseal under the client-to-server keys"
                uni = bool(flags & F_UNI)
                c, why = both("creds", plain, lambda x: S.ts_credentials(x, uni), S.canon_creds, "1" if uni else "0")
                if why: return "TSCredentials " + why
                for what, got, want in (("domainName", c["domain"], "" if ra else dom), ("userName", c["user"], "" if ra else user), ("password", c["password"], "" if ra else pw)):
                    if uni:
                        if got != ("u", cps(want)): return "TSPasswordCreds.%s decodes to %s, configured %s" % (what, S._nm(got), S._ns(cps(want)))
                    elif all(ord(ch) < 0x80 for ch in want):
                        if got != ("o", want.encode("ascii")): return "TSPasswordCreds.%s is %s" % (what, S._nm(got))
        if res[0] == "ok" and len(msgs) != 3: return "cssp_connect reported success after %d messages" % len(msgs)
        return None
    return None

NLA_OPS = ("negotiate", "auth", "cssp", "csspgate")

def nla_class(line, out):
    t = line.split(); r = out.split(" #")[0].split()
    head = r[0].split(":")[0] if r else "crashed"
    if t[0] == "auth":
        try:
            _, ti = challenge_parts(bytes.fromhex(t[8]))
            if not echo_wellformed(ti): return "auth:echo:" + head
        except Exception:
            pass
        return "auth:%s:%s" % (t[1], head)
    if t[0] == "cssp": return "cssp:%s:%s" % (t[1], head)
    if t[0] == "csspgate": return "csspgate:%s:%s" % (head, r[1] if len(r) > 1 else "")
    return t[0] + ":" + head

def nla_shape(line):
    t = line.split()
    if t[0] == "auth":
        chal = bytes.fromhex(t[8]); flags, ti = challenge_parts(chal)
        return ("auth", t[1], _cps_cls(t[2]), _cps_cls(t[3]), flags & (F_UNI | F_VER | F_TI | F_KX), min(len(ti) // 16, 12) if len(ti) < 60000 else len(ti))
    if t[0] == "cssp": return ("cssp", t[1]) + tuple(min(len(x), 520) // 2 for x in t[2:])
    if t[0] == "csspgate": return ("csspgate", t[1], _cps_cls(t[2]), _cps_cls(t[3]), t[6])
    return (t[0],)

def _cps_cls(s):
    if s == "-": return "e"
    c = [int(x, 16) for x in s.split(".")]
    return ("n" if max(c) > 0xffff else "b" if max(c) > 0xff else "l" if max(c) > 0x7f else "a") + ("L" if len(c) > 100 else "")

def gen_cases(tier, rng):
    quick = tier == "quick"
    cases = []
    # connection requests
    for offered in [0, 1, 2, 3, 8, 11, 0x1f, 0xff, 0x100, 0xffff, 0x10000, 0x7fffffff, 0x80000000, 0xffffffff, 0x12345678]:
        for ram in (0, 1): cases.append(cr_case(offered, ram))
    # the client core data on its own: every boundary name x a few geometries
    for nm in name_boundaries():
        cases.append(core_case(800, 600, 0x409, 0, nm))
        cases.append(core_case(rng.choice(V16), rng.choice(V16), rng.choice(LAYOUTS), rng.choice([0, 1, 2, 8]), nm))
    for lay in LAYOUTS: cases.append(core_case(1024, 768, lay, 0, "rdp-rs"))
    for v in V16: cases.append(core_case(v, V16[(V16.index(v) * 7 + 3) % len(V16)], 0x40c, 1, "x"))
    # whole transcripts
    for nm in name_boundaries():
        cases.append(pdus_case(name=nm, dom="d", user="u", pw="p", version=rng.choice(VERSIONS[:2])))
    for uid in UIDS:
        for ver in VERSIONS[:3]:
            cases.append(pdus_case(uid=uid, version=ver, sid=rng.choice(V32), dom="dom", user="usr", pw="pwd", events=["P:1:2:1:1", "K:30:0"]))
    for sid in V32: cases.append(pdus_case(sid=sid, uid=rng.choice(UIDS), events=["K:1:1"]))
    for lay in LAYOUTS: cases.append(pdus_case(layout=lay, sel=rng.choice([0, 1, 2, 8]), w=rng.choice(V16), h=rng.choice(V16)))
    for sel in (0, 1, 2, 8):
        for auto in (0, 1): cases.append(pdus_case(sel=sel, auto=auto, user="administrator", pw="paßwörd", dom="CORP"))
    # every button x press state, boundary coordinates; boundary scancodes
    for b in range(4):
        for d in range(2):
            cases.append(pdus_case(events=["P:%d:%d:%d:%d" % (x, V16[(V16.index(x) * 5 + 3) % len(V16)], b, d) for x in V16[:8]]))
    for d in range(2): cases.append(pdus_case(events=["K:%d:%d" % (c, d) for c in V16[:16]]))
    # credential totals across the one-byte / two-byte PER length switch of the send-data-request (user data 126 / 128 bytes)
    for n in range(44, 54):
        cases.append(pdus_case(dom="", user="u" * 3, pw="p" * (n - 3), version=0x00080004))
        cases.append(pdus_case(dom="\U0001f600" * 2, user="", pw="é" * (n - 4), version=0x00080004))
    # each string alone in each class and length 0, 1, 63, 64, 65
    for field in ("dom", "user", "pw"):
        for mk in (s_ascii, s_latin1, s_cjk, s_astral, s_mixed):
            for n in (1, 63, 64, 65):
                kw = {"dom": "", "user": "", "pw": ""}; kw[field] = mk(rng, n)
                cases.append(pdus_case(version=rng.choice(VERSIONS[:2]), **kw))
    # over-long: still well formed (or refused as a whole)
    cases.append(pdus_case(name="n" * 300, dom="d" * 300, user="ü" * 300, pw="\U0001f600" * 300))
    cases.append(pdus_case(name="中" * 300, dom="", user="", pw="", version=0x00080001))
    cases.append(pdus_case(dom="d" * 2000, user="u" * 2000, pw="p" * 2000))
    cases.append(pdus_case(dom="d" * 2000, user="u" * 2000, pw="p" * 2000, version=0x00080001))
    if not quick:
        cases.append(pdus_case(pw="p" * 33000))                        # frame beyond the TPKT length: must be refused, nothing malformed before
        cases.append(pdus_case(name="n" * 66000))                      # confirm-active beyond the TPKT length
    for _ in range(250 if quick else 6000):
        ev = [rand_event(rng) for _ in range(rng.choice([0, 0, 1, 2, 5]))]
        cases.append(pdus_case(sel=rng.choice([0, 1, 2, 8]), auto=rng.randrange(2), w=rng.choice(V16 + [rng.randrange(65536)]),
                               h=rng.choice(V16 + [rng.randrange(65536)]), layout=rng.choice(LAYOUTS),
                               uid=rng.choice(UIDS + [rng.randrange(1004, 65536)]), version=rng.choice(VERSIONS),
                               sid=rng.choice(V32 + [rng.randrange(1 << 32)]), name=rand_string(rng), dom=rand_string(rng),
                               user=rand_string(rng), pw=rand_string(rng), events=ev))
    for _ in range(100 if quick else 3000):
        cases.append(core_case(rng.randrange(65536), rng.randrange(65536), rng.choice(LAYOUTS), rng.choice([0, 1, 2, 8]), rand_string(rng, 40)))
    cases += nla_cases(tier, rng)
    return cases

# ------------------------------------------------------------------ what the configuration says must be on the wire
def cps(s): return [ord(c) for c in s]

def expected_name(s):
    """MS-RDPBCGR 2.2.1.3.2 clientName: up to 15 Unicode characters (UTF-16 code units) plus a null terminator;
    a decoder sees the characters before the first null"""
    out = []; n = 0
    for c in cps(s):
        k = 2 if c >= 0x10000 else 1
        if n + k > 15: break
        out.append(c); n += k
    if 0 in out: out = out[:out.index(0)]
    return out

def v5plus(version):
    return version == (0x00080001 if ARMS_SWAPPED else 0x00080004)

def expected_core(c, sel):
    opt = [0xCA01, 1, 0, 24, 10, 1, 0, 0, 0, sel]
    return "core=%d,%d,%d,%d,%d,%d,%d,%s,4,0,12,-,%s" % (0x00080004, c["w"], c["h"], 0xCA01, 0xAA03, c["layout"], 3790, S._ns(expected_name(c["name"])), S._ns(opt))

def expected_transcript(c):
    uid, sid = c["uid"], c["sid"]
    ic = "%d 1003" % uid
    out = ["ci target=34.2.0.1.0.1.65535.2 min=1.1.1.1.0.1.1056.2 max=65535.64535.65535.1.0.1.65535.2 %s security=11,0 net=0" % expected_core(c, c["sel"]),
           "erect 0 0", "attach", "join %d 1003" % uid, "join %d %d" % (uid, uid),
           "info %s 0 %d %s %s %s - - %s" % (ic, 0x10153 | (8 if c["auto"] else 0), S._ns(cps(c["dom"])), S._ns(cps(c["user"])), S._ns(cps(c["pw"])),
                                            "2,-,-,0,0" if v5plus(c["version"]) else "none"),
           "confirm %s %d %d source=%s caps=1.2.3.4.8.12.13.15.16.17.20.26 general=1045 bitmap=24,%d,%d input=21,%d,4,0,12" % (
               ic, uid, sid, hx(c["name"].encode("utf-8")), c["w"], c["h"], c["layout"]),
           "sync %s %d %d 1002" % (ic, uid, sid), "control %s %d %d 4 0 0" % (ic, uid, sid), "control %s %d %d 1 0 0" % (ic, uid, sid),
           "fontlist %s %d %d" % (ic, uid, sid)]
    for e in c["events"]:
        f = e.split(":")
        if f[0] == "P":
            fl = {1: 0x1000, 2: 0x2000, 3: 0x4000}.get(int(f[3]), 0x0800) | (0x8000 if f[4] == "1" else 0)
            out.append("input %s %d %d m,%d,%d,%d" % (ic, uid, sid, fl, int(f[1]), int(f[2])))
        else:
            out.append("input %s %d %d k,%d,%d" % (ic, uid, sid, 0 if f[2] == "1" else 0x8000, int(f[1])))
    out.append("disc 3")
    return out

# ------------------------------------------------------------------ the extracted Coq strict parser as a co-process
_drv = None
_cache = {}
def coq_parse(hexframe):
    global _drv
    if hexframe in _cache: return _cache[hexframe]
    if _drv is None or _drv.poll() is not None:
        path = os.path.join(os.path.dirname(os.path.dirname(os.path.abspath(__file__))), "ocaml", "pdus", "driver")
        _drv = subprocess.Popen([path], stdin=subprocess.PIPE, stdout=subprocess.PIPE)
    _drv.stdin.write(("parse %s\n" % hexframe).encode()); _drv.stdin.flush()
    r = _drv.stdout.readline().decode().strip()
    if len(_cache) < 200000: _cache[hexframe] = r
    return r

def judge_frame(h):
    """-> (canonical decode, None) or (None, why the frame is malformed)"""
    try:
        k, f = S.client_frame(bytes.fromhex(h))
        py = S.canon(k, f)
    except S.Bad as e:
        return None, "rejected by the strict parser: %s" % e
    cq = coq_parse(h)
    if cq != py:
        return None, "the extracted Coq strict parser says %r, the python strict parser %r" % (cq[:200], py[:200])
    return py, None

def split_out(out):
    out = out.split(" #")[0]
    toks = out.split()
    return (toks[0] if toks else "crashed"), [t for t in toks[1:] if t != "-"]

def oracle(line, out, expect):
    if line.split(" ", 1)[0] in NLA_OPS: return oracle_nla(line, out)
    res, frames = split_out(out)
    if res in ("panic", "spin", "crashed"): return "the client crashed (%s) while building its PDUs" % res
    if expect is None:
        expect = expect_of_line(line)
        if expect is None: return None
    op = expect["op"]
    if op == "core":
        if res != "ok" or len(frames) != 1: return "client_core_data: %s" % res
        b = bytes.fromhex(frames[0])
        try:
            c = S.cs_core(b)
        except S.Bad as e:
            return "client core data rejected by the strict parser: %s" % e
        if len(b) != 212: return "client core data is %d bytes, 212 specified for the fields present" % len(b)
        got = "core=%d,%d,%d,%d,%d,%d,%d,%s,%d,%d,%d,%s,%s" % (c["version"], c["desktopWidth"], c["desktopHeight"], c["colorDepth"], c["SASSequence"],
              c["keyboardLayout"], c["clientBuild"], S._ns(c["clientName"]), c["keyboardType"], c["keyboardSubType"], c["keyboardFunctionKey"],
              S._ns(c["imeFileName"]), S._ns([c[n] if s <= 4 else int.from_bytes(c[n], "little") for n, s in S.CORE_OPTIONAL if n in c]))
        want = expected_core(expect, expect["sel"])
        return None if got == want else "client core data decodes to %s, the configuration says %s" % (got, want)
    decoded = []
    for k, h in enumerate(frames):
        if h.startswith("tail:"): return "bytes on the wire that are not a TPKT frame: %s" % h[:80]
        d, why = judge_frame(h)
        if why: return "frame %d %s  [%s]" % (k, why, h[:120])
        decoded.append(d)
    if op == "cr":
        want = ["cr flags=%d protocols=%d" % (1 if expect["ram"] else 0, expect["offered"])]
        return None if decoded == want else "connection request decodes to %s, expected %s" % (decoded, want)
    want = expected_transcript(expect)
    if res == "ok":
        if decoded != want:
            for k, (a, b) in enumerate(zip(decoded + [None] * len(want), want + [None] * len(decoded))):
                if a != b: return "frame %d decodes to %r, the configuration says %r" % (k, a, b)
    else:
        # the connection was refused as a whole (a frame that does not fit): what WAS sent must be the mandated prefix
        if not res.startswith("err:"): return "unexpected result " + res
        if decoded != want[:len(decoded)]: return "refused run emitted %s" % decoded[-1:]
        if len(decoded) == len(want): return "run reported %s after the complete transcript" % res
    return None

def expect_of_line(line):
    """rebuild the configuration from a case line (corpus lines, replays)"""
    t = line.split()
    d = lambda h: bytes.fromhex(h if h != "-" else "").decode("utf-8")
    try:
        if t[0] == "cr": return dict(op="cr", offered=int(t[1]), ram=int(t[2]))
        if t[0] == "core": return dict(op="core", w=int(t[1]), h=int(t[2]), layout=int(t[3]), sel=int(t[4]), name=d(t[5]))
        if t[0] == "pdus":
            return dict(op="pdus", sel=int(t[1]), auto=int(t[2]), w=int(t[3]), h=int(t[4]), layout=int(t[5]), uid=int(t[6]), version=int(t[7]),
                        sid=int(t[8]), name=d(t[9]), dom=d(t[10]), user=d(t[11]), pw=d(t[12]), events=[] if t[13] == "-" else t[13].split(","))
    except Exception:
        return None
    return None

def _cls(s):
    if s == "": return "e"
    c = cps(s)
    k = "a" if max(c) < 0x80 else "l" if max(c) < 0x100 else "b" if max(c) < 0x10000 else "s"
    u = units(s)
    return k + ("<15" if u < 15 else "15" if u == 15 else "16" if u == 16 else ">16")

def classify(line, out):
    if line.split(" ", 1)[0] in NLA_OPS: return nla_class(line, out)
    res, frames = split_out(out)
    return "%s:%s:%d" % (line.split()[0], res.split(":")[0], len(frames))

def shape(line):
    if line.split(" ", 1)[0] in NLA_OPS: return nla_shape(line)
    e = expect_of_line(line)
    if e is None: return ("?",)
    if e["op"] == "cr": return ("cr", e["offered"] & 0xf, e["ram"])
    if e["op"] == "core": return ("core", _cls(e["name"]))
    return ("pdus", _cls(e["name"]), _cls(e["dom"])[0], _cls(e["user"])[0], _cls(e["pw"])[0], e["version"] in (0x80001, 0x80004), len(e["events"]))

def nontrivial(line, out):
    if line.split(" ", 1)[0] in NLA_OPS: return out.startswith("ok")
    res, frames = split_out(out)
    return len(frames) > 0
from ties import of as _tie_of; TIE_LAYOUTS, TIE_PINS, TIE_ENUMS = _tie_of("C04")   # static-tie lemmas (coq/Gen/Tie) this property depends on
