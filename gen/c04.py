"""C04: every PDU the client emits is well formed under a strict independent parser.
The real crate writes the PDUs of a whole connection (connection request; connect-initial with the GCC client
data blocks; erect-domain, attach-user, channel joins; client info; confirm-active, synchronize, control x2,
font-list; input PDUs; disconnect ultimatum) over an in-memory scripted server, for configurations drawn from
all of Unicode; every frame is judged by (a) gen/strictpdu.py, strict parsers written from the standards,
(b) the strict parsers of coq/StrictPdu.v, extracted, applied to the IMPLEMENTATION's bytes, and (c) compared
with what the configuration says must have been sent; the model's emitters (coq/ClientPdus.v) must produce the
same bytes (the diff of the pipeline)."""
import os, subprocess, struct
from common import *
from rdp import *
from rdpconn import *
import strictpdu as S

GROUP = "pdus"
MODEL_FILES = ["coq/ClientPdus.v", "coq/Msg.v", "coq/LayoutsGlobal.v", "coq/LayoutsConnect.v", "coq/Global.v", "coq/Tpkt.v"]
PROFILES = ["debug", "release"]
RULE = ("client name / domain / user / password from the classes {empty, ASCII 1..64, Latin-1, BMP CJK, non-BMP (surrogate pairs), mixed, "
        "embedded NUL, scalar-value boundaries U+7F/80/7FF/800/D7FF/E000/FFFF/10000/10FFFF, 14..17 UTF-16 code units with and without a "
        "surrogate pair across the 15-unit cut, 15..17 UTF-8 bytes with a character across byte 16, over-long (300 code points; one "
        "frame beyond the 16-bit TPKT length, which must be refused)}; credential totals sweeping the 1-byte/2-byte PER length switch; "
        "screen sizes over 16-bit boundaries; all 19 keyboard layouts; selected protocol 0/1/2/8; server version RDP4 / RDP5+ / other "
        "(with and without extended info); user ids 1001, 1002, 1004, 65535 and random; share ids over 32-bit "
        "boundaries; pointer / keyboard events over 16-bit boundaries and every button x press state; connection requests for every "
        "offered-protocol mask in a boundary set x restricted-admin.  Every frame the implementation wrote is parsed by the python "
        "strict parsers AND by the extracted Coq strict parsers, the two decodes must agree, must equal the configuration's values, and "
        "the frame sequence must be the mandated one.  Non-trivial = a run that emitted at least one frame; distinct = distinct "
        "(op, string classes, version class, number of events, outcome).")
TRUSTED_BASE = ["Coq 8.16.1 kernel (vm_compute in the fixed-layout lemmas and the non-vacuity run)",
                "hand-written model coq/ClientPdus.v (+ Msg.v, LayoutsGlobal.v, LayoutsConnect.v, Global.v, Tpkt.v) tied to /repo by this byte-for-byte correspondence run",
                "coq/StrictPdu.v: the reading of X.224 / T.125 / T.124 / MS-RDPBCGR embodied in the strict parsers (the spec of the theorems)",
                "extraction (ExtrOcamlBasic) + ocaml/pdus/driver.ml (UTF-8 decoding of case lines, rendering)", "Rust harness/src/pdus.rs + hooks x224::Client::verif_new, RdpClient::verif_new",
                "gen/strictpdu.py (independent python strict parsers, the oracle), gen/rdpconn.py + gen/rdp.py (scripted server)",
                "external code modelled, not verified: yasna's DER writer (connect-initial envelope, transliterated in ClientPdus.v and compared on every case), Rust's str / encode_utf16"]
ASSUMPTIONS = ["NTLM NEGOTIATE / AUTHENTICATE tokens and the CredSSP TSRequest / TSCredentials structures are NOT covered here (C15 / C07 own those layers): C04 is claimed for the RDP layers, theorem names carry _partial where the statement depends on it",
               "PDUs described by a PER length are covered up to 16383 bytes of user data (one X.691 fragment); beyond that the client uses the de-facto 15-bit RDP form; the property's quantifier (1..64 code points per string) stays far below",
               "the server-imposed maximum sizes of the credential strings (512 bytes in MS-RDPBCGR 2.2.1.11.1.1) are server policy, not part of well-formedness",
               "the two channel joins are emitted in HashMap order; the harness repeats the run until the I/O channel is asked first and the model emits them in that order",
               "gcc::Version::from has its arms swapped in /repo today (defect #20, repaired by the C18 work): the model follows the code behind the switch ClientPdus.version_arms_swapped; the theorems hold for both settings"]

LAYOUTS = [0x401, 0x402, 0x404, 0x405, 0x406, 0x407, 0x408, 0x409, 0x40a, 0x40b, 0x40c, 0x40d, 0x40e, 0x40f, 0x410, 0x411, 0x412, 0x413, 0x414]
V16 = [0, 1, 2, 127, 128, 255, 256, 257, 0x7fff, 0x8000, 0x8001, 0xfffe, 0xffff, 0x1234, 0xff00, 0x00ff, 800, 600, 1024, 768]
V32 = [0, 1, 0xff, 0x100, 0xffff, 0x10000, 0x000103ea, 0x7fffffff, 0x80000000, 0xfffffffe, 0xffffffff, 0x12345678]
UIDS = [1001, 1002, 1004, 1005, 1007, 0x7fff + 1001, 65534, 65535]   # not 1003: a user id equal to the I/O channel id makes the client's channel lookup ambiguous (C03's business)
VERSIONS = [0x00080001, 0x00080004, 0x00080005, 0, 0xffffffff]
ARMS_SWAPPED = False      # mirrors ClientPdus.version_arms_swapped (switch with it when defect #20 is repaired in /repo)

# ------------------------------------------------------------------ strings
def s_ascii(rng, n): return "".join(chr(rng.randrange(0x20, 0x7f)) for _ in range(n))
def s_latin1(rng, n): return "".join(chr(rng.randrange(0xa0, 0x100)) for _ in range(n))
def s_cjk(rng, n): return "".join(chr(rng.randrange(0x4e00, 0xa000)) for _ in range(n))
def s_astral(rng, n): return "".join(chr(rng.choice([0x10000, 0x1f600, 0x1f4a9, 0x2070e, 0x10ffff, rng.randrange(0x10000, 0x110000)])) for _ in range(n))
def scalar(rng):
    while True:
        c = rng.choice([rng.randrange(0x80), rng.randrange(0x800), rng.randrange(0x10000), rng.randrange(0x110000)])
        if not (0xd800 <= c < 0xe000): return c
def s_mixed(rng, n): return "".join(chr(scalar(rng)) for _ in range(n))
BOUNDARY_CHARS = [0x0, 0x1, 0x7f, 0x80, 0x7ff, 0x800, 0xd7ff, 0xe000, 0xfffd, 0xffff, 0x10000, 0x10ffff]

def units(s): return len(s.encode("utf-16-le")) // 2

def name_boundaries():
    """14..17 UTF-16 code units and 15..17 UTF-8 bytes, with multi-unit / multi-byte characters placed on the cut"""
    out = [""]
    e = "\U0001f600"; a = "é"; c = "中"
    for n in (13, 14, 15, 16, 17): out.append("a" * n)
    out += ["a" * 13 + e, "a" * 14 + e, "a" * 15 + e, "a" * 12 + e + "b", "a" * 13 + e + "b", e * 7, e * 7 + "a", e * 8, "a" + e * 7, "a" + e * 8,
            a * 7, a * 7 + "a", a * 8, "a" + a * 7, "a" + a * 8, a * 10, a * 15, a * 16, a * 17, "a" * 15 + a, "a" * 14 + a, "a" * 14 + c, "a" * 13 + c, "a" * 15 + c,
            c * 5, c * 5 + "a", c * 5 + "ab", c * 15, c * 16, "a" * 12 + e, "a" * 13 + "\U00010000", "a" * 14 + "\U0010ffff", "a\x00b", "\x00", "\x00abc",
            "a" * 14 + "\x00", "a" * 15 + "\x00", "퟿￿", "rdp-rs", "mstsc-rs"]
    return out

def rand_string(rng, maxlen=64):
    k = rng.randrange(9)
    n = rng.choice([0, 1, 2, 7, 8, 15, 16, 17, 31, 32, 33, 63, 64, rng.randrange(1, maxlen + 1)])
    if k == 0: return ""
    if k == 1: return s_ascii(rng, n)
    if k == 2: return s_latin1(rng, n)
    if k == 3: return s_cjk(rng, n)
    if k == 4: return s_astral(rng, n)
    if k == 5: return s_mixed(rng, n)
    if k == 6: return "".join(chr(rng.choice(BOUNDARY_CHARS)) for _ in range(min(n, 20)))
    if k == 7: return s_ascii(rng, n // 2) + s_astral(rng, 1) + s_ascii(rng, n // 2)
    return rng.choice(name_boundaries())

# ------------------------------------------------------------------ case lines
def activation(sid, uid):
    return [slow_frame(demand_active(share_id=sid), uid=uid), slow_frame(synchronize(share_id=sid), uid=uid),
            slow_frame(control(4, share_id=sid), uid=uid), slow_frame(control(2, uid, 1002, share_id=sid), uid=uid),
            slow_frame(font_map(share_id=sid), uid=uid)]

def pdus_case(sel=0, auto=0, w=800, h=600, layout=0x409, uid=1004, version=0x00080004, sid=0x000103ea,
              name="rdp-rs", dom="", user="", pw="", events=()):
    fr = conversation(uid=uid, order="g", version=version)[1:] + activation(sid, uid)
    e = lambda s: hx(s.encode("utf-8"))
    line = "pdus %d %d %d %d %d %d %d %d %s %s %s %s %s %s" % (sel, auto, w, h, layout, uid, version, sid, e(name), e(dom), e(user), e(pw),
           ",".join(events) if events else "-", " ".join(hx(f) for f in fr))
    cfg = dict(op="pdus", sel=sel, auto=auto, w=w, h=h, layout=layout, uid=uid, version=version, sid=sid,
               name=name, dom=dom, user=user, pw=pw, events=list(events))
    return (line, cfg)

def cr_case(offered, ram):
    return ("cr %d %d" % (offered, ram), dict(op="cr", offered=offered, ram=ram))

def core_case(w, h, layout, sel, name):
    return ("core %d %d %d %d %s" % (w, h, layout, sel, hx(name.encode("utf-8"))), dict(op="core", w=w, h=h, layout=layout, sel=sel, name=name))

def rand_event(rng):
    v = lambda: rng.choice(V16) if rng.random() < 0.6 else rng.randrange(65536)
    if rng.random() < 0.6: return "P:%d:%d:%d:%d" % (v(), v(), rng.randrange(4), rng.randrange(2))
    return "K:%d:%d" % (v(), rng.randrange(2))

def gen_cases(tier, rng):
    quick = tier == "quick"
    cases = []
    # connection requests
    for offered in [0, 1, 2, 3, 8, 11, 0x1f, 0xff, 0x100, 0xffff, 0x10000, 0x7fffffff, 0x80000000, 0xffffffff, 0x12345678]:
        for ram in (0, 1): cases.append(cr_case(offered, ram))
    # the client core data on its own: every boundary name x a few geometries
    for nm in name_boundaries():
        cases.append(core_case(800, 600, 0x409, 0, nm))
        cases.append(core_case(rng.choice(V16), rng.choice(V16), rng.choice(LAYOUTS), rng.choice([0, 1, 2, 8]), nm))
    for lay in LAYOUTS: cases.append(core_case(1024, 768, lay, 0, "rdp-rs"))
    for v in V16: cases.append(core_case(v, V16[(V16.index(v) * 7 + 3) % len(V16)], 0x40c, 1, "x"))
    # whole transcripts
    for nm in name_boundaries():
        cases.append(pdus_case(name=nm, dom="d", user="u", pw="p", version=rng.choice(VERSIONS[:2])))
    for uid in UIDS:
        for ver in VERSIONS[:3]:
            cases.append(pdus_case(uid=uid, version=ver, sid=rng.choice(V32), dom="dom", user="usr", pw="pwd", events=["P:1:2:1:1", "K:30:0"]))
    for sid in V32: cases.append(pdus_case(sid=sid, uid=rng.choice(UIDS), events=["K:1:1"]))
    for lay in LAYOUTS: cases.append(pdus_case(layout=lay, sel=rng.choice([0, 1, 2, 8]), w=rng.choice(V16), h=rng.choice(V16)))
    for sel in (0, 1, 2, 8):
        for auto in (0, 1): cases.append(pdus_case(sel=sel, auto=auto, user="administrator", pw="paßwörd", dom="CORP"))
    # every button x press state, boundary coordinates; boundary scancodes
    for b in range(4):
        for d in range(2):
            cases.append(pdus_case(events=["P:%d:%d:%d:%d" % (x, V16[(V16.index(x) * 5 + 3) % len(V16)], b, d) for x in V16[:8]]))
    for d in range(2): cases.append(pdus_case(events=["K:%d:%d" % (c, d) for c in V16[:16]]))
    # credential totals across the one-byte / two-byte PER length switch of the send-data-request (user data 126 / 128 bytes)
    for n in range(44, 54):
        cases.append(pdus_case(dom="", user="u" * 3, pw="p" * (n - 3), version=0x00080004))
        cases.append(pdus_case(dom="\U0001f600" * 2, user="", pw="é" * (n - 4), version=0x00080004))
    # each string alone in each class and length 0, 1, 63, 64, 65
    for field in ("dom", "user", "pw"):
        for mk in (s_ascii, s_latin1, s_cjk, s_astral, s_mixed):
            for n in (1, 63, 64, 65):
                kw = {"dom": "", "user": "", "pw": ""}; kw[field] = mk(rng, n)
                cases.append(pdus_case(version=rng.choice(VERSIONS[:2]), **kw))
    # over-long: still well formed (or refused as a whole)
    cases.append(pdus_case(name="n" * 300, dom="d" * 300, user="ü" * 300, pw="\U0001f600" * 300))
    cases.append(pdus_case(name="中" * 300, dom="", user="", pw="", version=0x00080001))
    cases.append(pdus_case(dom="d" * 2000, user="u" * 2000, pw="p" * 2000))
    cases.append(pdus_case(dom="d" * 2000, user="u" * 2000, pw="p" * 2000, version=0x00080001))
    if not quick:
        cases.append(pdus_case(pw="p" * 33000))                        # frame beyond the TPKT length: must be refused, nothing malformed before
        cases.append(pdus_case(name="n" * 66000))                      # confirm-active beyond the TPKT length
    for _ in range(250 if quick else 6000):
        ev = [rand_event(rng) for _ in range(rng.choice([0, 0, 1, 2, 5]))]
        cases.append(pdus_case(sel=rng.choice([0, 1, 2, 8]), auto=rng.randrange(2), w=rng.choice(V16 + [rng.randrange(65536)]),
                               h=rng.choice(V16 + [rng.randrange(65536)]), layout=rng.choice(LAYOUTS),
                               uid=rng.choice(UIDS + [rng.randrange(1004, 65536)]), version=rng.choice(VERSIONS),
                               sid=rng.choice(V32 + [rng.randrange(1 << 32)]), name=rand_string(rng), dom=rand_string(rng),
                               user=rand_string(rng), pw=rand_string(rng), events=ev))
    for _ in range(100 if quick else 3000):
        cases.append(core_case(rng.randrange(65536), rng.randrange(65536), rng.choice(LAYOUTS), rng.choice([0, 1, 2, 8]), rand_string(rng, 40)))
    return cases

# ------------------------------------------------------------------ what the configuration says must be on the wire
def cps(s): return [ord(c) for c in s]

def expected_name(s):
    """MS-RDPBCGR 2.2.1.3.2 clientName: up to 15 Unicode characters (UTF-16 code units) plus a null terminator;
    a decoder sees the characters before the first null"""
    out = []; n = 0
    for c in cps(s):
        k = 2 if c >= 0x10000 else 1
        if n + k > 15: break
        out.append(c); n += k
    if 0 in out: out = out[:out.index(0)]
    return out

def v5plus(version):
    return version == (0x00080001 if ARMS_SWAPPED else 0x00080004)

def expected_core(c, sel):
    opt = [0xCA01, 1, 0, 24, 10, 1, 0, 0, 0, sel]
    return "core=%d,%d,%d,%d,%d,%d,%d,%s,4,0,12,-,%s" % (0x00080004, c["w"], c["h"], 0xCA01, 0xAA03, c["layout"], 3790, S._ns(expected_name(c["name"])), S._ns(opt))

def expected_transcript(c):
    uid, sid = c["uid"], c["sid"]
    ic = "%d 1003" % uid
    out = ["ci target=34.2.0.1.0.1.65535.2 min=1.1.1.1.0.1.1056.2 max=65535.64535.65535.1.0.1.65535.2 %s security=11,0 net=0" % expected_core(c, c["sel"]),
           "erect 0 0", "attach", "join %d 1003" % uid, "join %d %d" % (uid, uid),
           "info %s 0 %d %s %s %s - - %s" % (ic, 0x10153 | (8 if c["auto"] else 0), S._ns(cps(c["dom"])), S._ns(cps(c["user"])), S._ns(cps(c["pw"])),
                                            "2,-,-,0,0" if v5plus(c["version"]) else "none"),
           "confirm %s %d %d source=%s caps=1.2.3.4.8.12.13.15.16.17.20.26 general=1045 bitmap=24,%d,%d input=21,%d,4,0,12" % (
               ic, uid, sid, hx(c["name"].encode("utf-8")), c["w"], c["h"], c["layout"]),
           "sync %s %d %d 1002" % (ic, uid, sid), "control %s %d %d 4 0 0" % (ic, uid, sid), "control %s %d %d 1 0 0" % (ic, uid, sid),
           "fontlist %s %d %d" % (ic, uid, sid)]
    for e in c["events"]:
        f = e.split(":")
        if f[0] == "P":
            fl = {1: 0x1000, 2: 0x2000, 3: 0x4000}.get(int(f[3]), 0x0800) | (0x8000 if f[4] == "1" else 0)
            out.append("input %s %d %d m,%d,%d,%d" % (ic, uid, sid, fl, int(f[1]), int(f[2])))
        else:
            out.append("input %s %d %d k,%d,%d" % (ic, uid, sid, 0 if f[2] == "1" else 0x8000, int(f[1])))
    out.append("disc 3")
    return out

# ------------------------------------------------------------------ the extracted Coq strict parser as a co-process
_drv = None
_cache = {}
def coq_parse(hexframe):
    global _drv
    if hexframe in _cache: return _cache[hexframe]
    if _drv is None or _drv.poll() is not None:
        path = os.path.join(os.path.dirname(os.path.dirname(os.path.abspath(__file__))), "ocaml", "pdus", "driver")
        _drv = subprocess.Popen([path], stdin=subprocess.PIPE, stdout=subprocess.PIPE)
    _drv.stdin.write(("parse %s\n" % hexframe).encode()); _drv.stdin.flush()
    r = _drv.stdout.readline().decode().strip()
    if len(_cache) < 200000: _cache[hexframe] = r
    return r

def judge_frame(h):
    """-> (canonical decode, None) or (None, why the frame is malformed)"""
    try:
        k, f = S.client_frame(bytes.fromhex(h))
        py = S.canon(k, f)
    except S.Bad as e:
        return None, "rejected by the strict parser: %s" % e
    cq = coq_parse(h)
    if cq != py:
        return None, "the extracted Coq strict parser says %r, the python strict parser %r" % (cq[:200], py[:200])
    return py, None

def split_out(out):
    out = out.split(" #")[0]
    toks = out.split()
    return (toks[0] if toks else "crashed"), [t for t in toks[1:] if t != "-"]

def oracle(line, out, expect):
    res, frames = split_out(out)
    if res in ("panic", "spin", "crashed"): return "the client crashed (%s) while building its PDUs" % res
    if expect is None:
        expect = expect_of_line(line)
        if expect is None: return None
    op = expect["op"]
    if op == "core":
        if res != "ok" or len(frames) != 1: return "client_core_data: %s" % res
        b = bytes.fromhex(frames[0])
        try:
            c = S.cs_core(b)
        except S.Bad as e:
            return "client core data rejected by the strict parser: %s" % e
        if len(b) != 212: return "client core data is %d bytes, 212 specified for the fields present" % len(b)
        got = "core=%d,%d,%d,%d,%d,%d,%d,%s,%d,%d,%d,%s,%s" % (c["version"], c["desktopWidth"], c["desktopHeight"], c["colorDepth"], c["SASSequence"],
              c["keyboardLayout"], c["clientBuild"], S._ns(c["clientName"]), c["keyboardType"], c["keyboardSubType"], c["keyboardFunctionKey"],
              S._ns(c["imeFileName"]), S._ns([c[n] if s <= 4 else int.from_bytes(c[n], "little") for n, s in S.CORE_OPTIONAL if n in c]))
        want = expected_core(expect, expect["sel"])
        return None if got == want else "client core data decodes to %s, the configuration says %s" % (got, want)
    decoded = []
    for k, h in enumerate(frames):
        if h.startswith("tail:"): return "bytes on the wire that are not a TPKT frame: %s" % h[:80]
        d, why = judge_frame(h)
        if why: return "frame %d %s  [%s]" % (k, why, h[:120])
        decoded.append(d)
    if op == "cr":
        want = ["cr flags=%d protocols=%d" % (1 if expect["ram"] else 0, expect["offered"])]
        return None if decoded == want else "connection request decodes to %s, expected %s" % (decoded, want)
    want = expected_transcript(expect)
    if res == "ok":
        if decoded != want:
            for k, (a, b) in enumerate(zip(decoded + [None] * len(want), want + [None] * len(decoded))):
                if a != b: return "frame %d decodes to %r, the configuration says %r" % (k, a, b)
    else:
        # the connection was refused as a whole (a frame that does not fit): what WAS sent must be the mandated prefix
        if not res.startswith("err:"): return "unexpected result " + res
        if decoded != want[:len(decoded)]: return "refused run emitted %s" % decoded[-1:]
        if len(decoded) == len(want): return "run reported %s after the complete transcript" % res
    return None

def expect_of_line(line):
    """rebuild the configuration from a case line (corpus lines, replays)"""
    t = line.split()
    d = lambda h: bytes.fromhex(h if h != "-" else "").decode("utf-8")
    try:
        if t[0] == "cr": return dict(op="cr", offered=int(t[1]), ram=int(t[2]))
        if t[0] == "core": return dict(op="core", w=int(t[1]), h=int(t[2]), layout=int(t[3]), sel=int(t[4]), name=d(t[5]))
        if t[0] == "pdus":
            return dict(op="pdus", sel=int(t[1]), auto=int(t[2]), w=int(t[3]), h=int(t[4]), layout=int(t[5]), uid=int(t[6]), version=int(t[7]),
                        sid=int(t[8]), name=d(t[9]), dom=d(t[10]), user=d(t[11]), pw=d(t[12]), events=[] if t[13] == "-" else t[13].split(","))
    except Exception:
        return None
    return None

def _cls(s):
    if s == "": return "e"
    c = cps(s)
    k = "a" if max(c) < 0x80 else "l" if max(c) < 0x100 else "b" if max(c) < 0x10000 else "s"
    u = units(s)
    return k + ("<15" if u < 15 else "15" if u == 15 else "16" if u == 16 else ">16")

def classify(line, out):
    res, frames = split_out(out)
    return "%s:%s:%d" % (line.split()[0], res.split(":")[0], len(frames))

def shape(line):
    e = expect_of_line(line)
    if e is None: return ("?",)
    if e["op"] == "cr": return ("cr", e["offered"] & 0xf, e["ram"])
    if e["op"] == "core": return ("core", _cls(e["name"]))
    return ("pdus", _cls(e["name"]), _cls(e["dom"])[0], _cls(e["user"])[0], _cls(e["pw"])[0], e["version"] in (0x80001, 0x80004), len(e["events"]))

def nontrivial(line, out):
    res, frames = split_out(out)
    return len(frames) > 0
from ties import of as _tie_of; TIE_LAYOUTS, TIE_PINS, TIE_ENUMS = _tie_of("C04")   # static-tie lemmas (coq/Gen/Tie) this property depends on
