"""C08: bitmap decompression is total and returns exactly width*height*4 bytes -- case generator and oracle.
Case line:  bmp <width> <height> <bpp> <flag 0|1> <data: hex | @len:seed | ->
Outcome  :  ok <len:fnv64:first 12 bytes of the returned buffer> | err:<Kind> | panic | spin    [ #a=<largest single allocation>]"""
from common import *

GROUP = "codec"
MODEL_FILES = ["coq/Buf.v", "coq/Rle16.v", "coq/Rle32.v", "coq/Bitmap.v"]
PROFILES = ["debug", "release"]
RULE = ("BitmapEvent::decompress on: (w,h) in {0,1,2,3,4,7,8,9,15,16,17,31,64}^2 x depths {8,15,16,24,32,0,65535} x both flags "
        "x {empty, short, exact-size, exact-size -1/+1 data}; every byte string up to 2 bytes (thorough: 3 bytes with the third from "
        "a boundary set) as interleaved-RLE and (after the 0x10 header) planar-RLE data on tiny bitmaps; grammar-aware interleaved "
        "streams (every order code 0..255 as first order and after a first line, regular/lite/mega-mega forms, run lengths ending at "
        "x in {w-9,w-8,w-7,w-1,w,w+1}, at the last line and one past the buffer), grammar-aware planar streams (every control byte, "
        "segments ending at w-1, w, w+1, valid random images with random segmentation, every truncation), uncompressed data around "
        "the u16 limits (256x128, 256x129, 256x256, 300x300), dimensions up to 65535 and 2^30 pixels, random bytes.  Outputs are "
        "compared byte for byte through length + FNV-64 + head.  A case is non-trivial when data is non-empty and the depth is "
        "supported; distinct = distinct (size class, depth, flag, first-byte class, length class, outcome).")
TRUSTED_BASE = ["Coq 8.16.1 kernel (vm_compute for finite sweeps over one byte and for the concrete non-vacuity instances)",
                "hand-written model coq/Buf.v + coq/Rle16.v + coq/Rle32.v + coq/Bitmap.v tied to /repo by this correspondence run",
                "extraction (ExtrOcamlBasic only) + ocaml/codec/driver.ml",
                "Rust harness/src/codec.rs (catch_unwind, counting allocator harness/src/alloc.rs)",
                "Rust semantics modelled, not verified: slice bounds checks, integer overflow per profile, usize = 64 bits, "
                "vec![0; n] = one zeroed allocation of n * size_of::<T>() bytes (capacity overflow above isize::MAX), io::Cursor reads"]
ASSUMPTIONS = ["width, height, bpp are u16 and data is a byte vector (the types of BitmapEvent)",
               "usize is 64 bits (the harness target); on a 32-bit target width*height*4 can exceed usize",
               "a failing allocation aborts the process (Rust's handle_alloc_error) and is outside the model; the model bounds what is requested"]

SIZES = [0, 1, 2, 3, 4, 7, 8, 9, 15, 16, 17, 31, 64]
DEPTHS = [8, 15, 16, 24, 32, 0, 65535]
ALLOC_SLACK = 256          # error strings, panic payloads

def case(w, h, bpp, flag, data):
    return "bmp %d %d %d %d %s" % (w, h, bpp, flag, data if isinstance(data, str) else hx(data))

# ------------------------------------------------------------------ interleaved RLE (16 bpp) order encoder
def le16b(v): return bytes([v & 255, (v >> 8) & 255])

# kind -> (regular code or None, lite code or None, mega code or None)
ORDERS = {
    "bg":      (0x00, None, 0xF0),
    "fg":      (0x20, None, 0xF1),
    "fgbg":    (0x40, None, 0xF2),
    "col":     (0x60, None, 0xF3),
    "img":     (0x80, None, 0xF4),
    "setfg":   (None, 0xC0, 0xF6),
    "setfgbg": (None, 0xD0, 0xF7),
    "dith":    (None, 0xE0, 0xF8),
}

def enc_order(kind, n, form, rng, short_payload=0):
    """one order of `kind` with run count n in the given form ('reg' covers regular and lite); returns None when
    the form cannot express n"""
    reg, lite, mega = ORDERS[kind]
    fom = kind in ("fgbg", "setfgbg")
    hdr = None
    if form == "mega":
        if not (0 <= n <= 65535): return None
        hdr = bytes([mega]) + le16b(n)
    else:
        code, bits, off = (reg, 31, 32) if reg is not None else (lite, 15, 16)
        if fom:
            if n % 8 == 0 and 1 <= n // 8 <= bits and form == "reg": hdr = bytes([code | (n // 8)])
            elif 1 <= n <= 256: hdr = bytes([code, n - 1])
            else: return None
        else:
            if 1 <= n <= bits and form == "reg": hdr = bytes([code | n])
            elif off <= n <= off + 255: hdr = bytes([code, n - off])
            else: return None
    out = hdr
    if kind in ("setfg", "setfgbg"): out += le16b(rng.randrange(65536))
    if kind == "dith": out += le16b(rng.randrange(65536)) + le16b(rng.randrange(65536))
    if kind == "col": out += le16b(rng.randrange(65536))
    if fom: payload = bytes(rng.randrange(256) for _ in range((n + 7) // 8))
    elif kind == "img": payload = bytes(rng.randrange(256) for _ in range(2 * n))
    else: payload = b""
    if short_payload and payload: payload = payload[:max(0, len(payload) - short_payload)]
    return out + payload

def px_of(kind, n): return 2 * n if kind == "dith" else n

def tail_for(code, rng, n=600):
    """bytes that let ANY first order byte run to completion: extension / count / parameters / payload are all
    satisfied by a long enough tail of small values"""
    return bytes(rng.choice([1, 1, 2, 3, 0, 7, 0xff, 0x10]) for _ in range(n))

def rle16_cases(tier, rng):
    quick = tier == "quick"
    out = []
    dims = [(0, 0), (0, 3), (3, 0), (1, 1), (2, 2), (1, 5), (5, 1), (3, 3), (4, 4), (7, 3), (8, 2), (9, 3), (15, 2), (16, 2), (17, 3), (31, 2), (64, 3)]
    # 1. every code byte as the first order and as the first order after one full line, valid continuation
    first_line = lambda w: (enc_order("img", w, "reg", rng) or enc_order("img", w, "mega", rng)) if w else b""
    for (w, h) in dims:
        for code in range(256):
            t = tail_for(code, rng, 40 + 2 * w * h if w * h < 300 else 700)
            out.append(case(w, h, 16, 1, bytes([code]) + t))
            out.append(case(w, h, 16, 1, first_line(w) + bytes([code]) + t))
            if not quick or (w, h) in ((2, 2), (9, 3), (17, 3)):
                # the same code twice (foreground insertion between background runs) and with a short tail
                out.append(case(w, h, 16, 1, bytes([code, 1, code, 1, 0, 0]) ))
                out.append(case(w, h, 16, 1, first_line(w) + bytes([code]) + t[:3]))
    # 2. run lengths at the line / buffer boundaries, every kind and form, from several start columns
    bdims = [(1, 1), (2, 2), (3, 2), (8, 2), (9, 2), (10, 3), (16, 2), (17, 3), (18, 2), (31, 2), (40, 3), (64, 2)] if quick else \
            [(w, h) for w in (1, 2, 3, 7, 8, 9, 10, 15, 16, 17, 18, 24, 25, 31, 33, 40, 64) for h in (1, 2, 3)]
    for (w, h) in bdims:
        tot = w * h
        ends = sorted(set(e for e in [w - 9, w - 8, w - 7, w - 1, w, w + 1, 2 * w - 1, 2 * w, 2 * w + 1, tot - 1, tot, tot + 1, tot + 9] if e > 0))
        for x0 in sorted(set([0, 1, w - 1, w, w + 1])):
            if x0 < 0 or x0 > tot: continue
            pre = enc_order("img", x0, "reg", rng) or enc_order("img", x0, "mega", rng) if x0 else b""
            for kind in ORDERS:
                for end in ends:
                    n = end - x0
                    if n <= 0: continue
                    if kind == "dith":
                        if n % 2: continue
                        n //= 2
                    for form in ("reg", "mega"):
                        o = enc_order(kind, n, form, rng)
                        if o is None: continue
                        out.append(case(w, h, 16, 1, pre + o))
                        if rng.random() < 0.3:
                            out.append(case(w, h, 16, 1, pre + o + enc_order("bg", 1, "reg", rng)))
                        if rng.random() < 0.15:
                            o2 = enc_order(kind, n, form, rng, short_payload=1)
                            out.append(case(w, h, 16, 1, pre + o2))
    # specials and the largest counts
    for (w, h) in [(1, 1), (8, 1), (9, 2), (16, 2), (64, 64)]:
        for sp in (0xF9, 0xFA, 0xFD, 0xFE, 0xF5, 0xFB, 0xFC, 0xFF, 0xA0, 0xBF):
            out.append(case(w, h, 16, 1, bytes([sp]) * 3))
            out.append(case(w, h, 16, 1, bytes([0xFD, sp, 0xFE, sp])))
        for kind in ORDERS:
            for n in (0, 1, 255, 256, 4095, 4096, 4097, 32767, 32768, 65534, 65535):
                o = enc_order(kind, n, "mega", rng)
                if o is not None and len(o) < 20000: out.append(case(w, h, 16, 1, o))
    # 3. random valid-ish order sequences
    nseq = 1500 if quick else 40000
    for _ in range(nseq):
        w = rng.choice([1, 2, 3, 5, 8, 9, 16, 17, 23, 31, 64]); h = rng.choice([1, 2, 3, 4, 9])
        left = w * h + rng.choice([0, 0, 0, 1, -1, 5])
        s = b""
        while left > 0:
            kind = rng.choice(list(ORDERS))
            n = min(left, rng.choice([1, 2, 3, 7, 8, 9, 15, 16, 17, 31, 32, 33, 40, 100, 300]))
            if kind == "dith": n = max(1, n // 2)
            o = enc_order(kind, n, rng.choice(["reg", "reg", "mega"]), rng) or enc_order(kind, n, "mega", rng)
            s += o; left -= px_of(kind, n)
            if rng.random() < 0.05: s += bytes([rng.choice([0xF9, 0xFA, 0xFD, 0xFE])]); left -= 1
        if rng.random() < 0.2: s = s[:rng.randrange(len(s) + 1)]
        if rng.random() < 0.1:
            k = rng.randrange(len(s)) if s else 0
            s = s[:k] + bytes([rng.randrange(256)]) + s[k + 1:]
        out.append(case(w, h, 16, 1, s))
    return out

# ------------------------------------------------------------------ planar RLE (32 bpp) encoder
def enc_plane_line(vals, prev, rng):
    """segments for one scan line of one plane: absolute values on the first line, zig-zag deltas after.
    A segment = control (raw<<4 | run), raw bytes, then `run` repeats of the last value (0 at line start);
    run nibble 1 / 2 are the long-run escapes 16+raw / 32+raw with no raw bytes."""
    if prev is None: syms = list(vals)
    else:
        syms = []
        for v, pv in zip(vals, prev):
            d = (v - pv) & 255
            if d >= 128: d -= 256
            syms.append(2 * d if d >= 0 else -2 * d - 1)
    out = b""; i = 0; n = len(syms); color = 0
    while i < n:
        r = rng.randrange(0, min(15, n - i) + 1)
        while True:
            last = syms[i + r - 1] if r else color
            j = i + r
            avail = 0
            while j + avail < n and syms[j + avail] == last: avail += 1
            run = min(47, rng.randrange(0, avail + 1))
            if run in (1, 2): run = 0
            if r == 0 and run == 0:
                if rng.random() < 0.05: out += b"\x00"     # a segment of nothing is legal
                r = 1; continue
            break
        if run >= 16:
            if r: out += bytes([r << 4]) + bytes(syms[i:i + r])
            out += bytes([((run - 32) << 4) | 2]) if run >= 32 else bytes([((run - 16) << 4) | 1])
        else:
            out += bytes([(r << 4) | run]) + bytes(syms[i:i + r])
        color = last; i = j + run
    return out

def full_line(w):
    """a valid encoding of one scan line of w equal values"""
    s = b""; left = w
    while left:
        if left >= 32: k = min(47, left); s += bytes([((k - 32) << 4) | 2])
        elif left >= 16: k = left; s += bytes([((k - 16) << 4) | 1])
        elif left >= 3: k = left; s += bytes([k])
        else: k = left; s += bytes([k << 4]) + bytes(k)
        left -= k
    return s

def enc_planar(img, w, h, rng):
    """img: list of h rows (top-down) of (b,g,r,a); planes A,R,G,B, scan lines bottom-up"""
    s = b"\x10"
    for comp in (3, 2, 1, 0):
        prev = None
        for y in range(h - 1, -1, -1):
            vals = [img[y][x][comp] for x in range(w)]
            s += enc_plane_line(vals, prev, rng)
            prev = vals
    return s

def rand_img(w, h, rng):
    mode = rng.choice(["flat", "noise", "rows", "small"])
    if mode == "flat":
        c = tuple(rng.randrange(256) for _ in range(4)); return [[c] * w for _ in range(h)]
    if mode == "rows":
        rows = [tuple(rng.randrange(256) for _ in range(4)) for _ in range(h)]; return [[rows[y]] * w for y in range(h)]
    if mode == "small":
        pal = [tuple(rng.randrange(256) for _ in range(4)) for _ in range(2)]
        return [[rng.choice(pal) for _ in range(w)] for _ in range(h)]
    return [[tuple(rng.randrange(256) for _ in range(4)) for _ in range(w)] for _ in range(h)]

def bgra(img): return b"".join(bytes(px) for row in img for px in row)

def rle32_cases(tier, rng):
    quick = tier == "quick"
    out = []
    # every control byte as the first segment of the first line and of a delta line, on several widths
    for (w, h) in [(1, 1), (2, 1), (1, 2), (15, 1), (16, 2), (17, 2), (31, 2), (32, 1), (47, 2), (48, 2), (64, 2)]:
        for code in range(256):
            t = bytes(rng.choice([0, 1, 2, 0x10, 0xff, 0x33]) for _ in range(4 * w * h + 40))
            out.append((case(w, h, 32, 1, b"\x10" + bytes([code]) + t), None))
            if h > 1:
                # first line as raw segments, then the control byte opens the delta line
                fl = b""; left = w
                while left: k = min(15, left); fl += bytes([k << 4]) + bytes(rng.randrange(256) for _ in range(k)); left -= k
                out.append((case(w, h, 32, 1, b"\x10" + fl + bytes([code]) + t), None))
    # segments ending at w-1, w, w+1 in every form
    for w in ([1, 2, 15, 16, 17, 31, 32, 33, 47, 48, 49, 64] if quick else list(range(1, 66))):
        for h in (1, 2):
            for end in (w - 1, w, w + 1):
                for x0 in (0, 1, w // 2):
                    n = end - x0
                    if n <= 0 or x0 > 15: continue
                    pre = (bytes([x0 << 4]) + bytes([7] * x0)) if x0 else b""
                    forms = []
                    if n <= 15: forms += [bytes([n << 4]) + bytes([9] * n), bytes([0x10 | (n - 1)]) + b"\x05" if n >= 4 else None, bytes([n]) if n >= 3 else None]
                    if 16 <= n <= 31: forms.append(bytes([((n - 16) << 4) | 1]))
                    if 32 <= n <= 47: forms.append(bytes([((n - 32) << 4) | 2]))
                    for f in forms:
                        if f is None: continue
                        line = pre + f
                        # when the line is exactly full continue with valid full lines for the rest
                        rest = full_line(w) * (4 * h) if end == w else b""
                        out.append((case(w, h, 32, 1, b"\x10" + line + rest), None))
    # valid random images, random segmentation: the result is known
    nimg = 600 if quick else 20000
    for _ in range(nimg):
        w = rng.choice([1, 2, 3, 4, 7, 8, 15, 16, 17, 31, 33, 48, 64]); h = rng.choice([1, 2, 3, 4, 8])
        img = rand_img(w, h, rng)
        s = enc_planar(img, w, h, rng)
        out.append((case(w, h, 32, 1, s), "ok " + summ(bgra(img))))
        r = rng.random()
        if r < 0.25: out.append((case(w, h, 32, 1, s[:rng.randrange(len(s))]), None))
        elif r < 0.4:
            k = rng.randrange(1, len(s)); out.append((case(w, h, 32, 1, s[:k] + bytes([rng.randrange(256)]) + s[k + 1:]), None))
        elif r < 0.5: out.append((case(w, h, 32, 1, s + b"\x00\x11"), "ok " + summ(bgra(img))))
    # every truncation of one valid stream; wrong headers
    img = rand_img(5, 3, rng); s = enc_planar(img, 5, 3, rng)
    for k in range(len(s)): out.append((case(5, 3, 32, 1, s[:k]), None))
    for hdr in range(256):
        out.append((case(2, 2, 32, 1, bytes([hdr]) + s[1:]), None))
    return out

# ------------------------------------------------------------------ uncompressed reference
def widen565(v):
    return bytes([(((v & 0x1f) * 527) + 23) >> 6, ((((v >> 5) & 0x3f) * 259) + 33) >> 6, ((((v >> 11) & 0x1f) * 527) + 23) >> 6, 255])

def raw_expect(w, h, bpp, data):
    if bpp == 32:
        if len(data) < w * h * 4: return "err:InvalidSize"
        rows = [data[(h - 1 - i) * w * 4:(h - i) * w * 4] for i in range(h)]
        return "ok " + summ(b"".join(rows))
    if len(data) < w * h * 2: return "err:InvalidSize"
    o = bytearray()
    for i in range(h):
        for j in range(w):
            s = ((h - 1 - i) * w + j) * 2
            o += widen565(data[s] | (data[s + 1] << 8))
    return "ok " + summ(bytes(o))

def raw_cases(tier, rng):
    quick = tier == "quick"
    out = []
    dims = [(w, h) for w in SIZES for h in SIZES]
    big = [(256, 128), (256, 129), (128, 257), (255, 257), (256, 256), (300, 300)] if quick else \
          [(256, 128), (256, 129), (128, 257), (255, 257), (256, 256), (257, 255), (300, 300), (181, 182), (512, 129), (1024, 65), (65, 1024)]   # data stays below ~400 kB: the extracted `length` is not tail recursive
    for (w, h) in dims + big:
        for bpp in (16, 32):
            n = w * h * (bpp // 8)
            lens = [n] if (w, h) in big else sorted(set(x for x in [0, n - 1, n, n + 1, n + 5] if x >= 0))
            for ln in lens:
                seed = rng.randrange(256)
                d = fill(ln, seed)
                out.append((case(w, h, bpp, 0, "@%d:%d" % (ln, seed) if ln else "-"), raw_expect(w, h, bpp, d)))
        if (w, h) in big:
            out.append((case(w, h, 16, 0, "@%d:1" % (w * h * 2 - 1)), "err:InvalidSize"))
    # all 65536 colour values (256 x 256 image of consecutive values) -- the widening table, for C09
    allc = b"".join(le16b(v) for v in range(65536))
    out.append((case(256, 256, 16, 0, allc), raw_expect(256, 256, 16, allc)))
    return out

# ------------------------------------------------------------------ the sweep of the quantifier
def sweep_cases(tier, rng):
    out = []
    for w in SIZES:
        for h in SIZES:
            for bpp in DEPTHS:
                for flag in (0, 1):
                    n = w * h * max(1, (bpp // 8) if bpp in (8, 16, 24, 32) else 2)
                    datas = ["-", "00", "10", hx(bytes(rng.randrange(256) for _ in range(rng.randrange(1, 9))))]
                    if n: datas += ["@%d:%d" % (n, rng.randrange(256))]
                    if n > 1: datas += ["@%d:%d" % (n - 1, rng.randrange(256))]
                    datas += ["@%d:%d" % (n + 1, rng.randrange(256))]
                    for d in datas: out.append(case(w, h, bpp, flag, d))
    return out

def exhaustive_cases(tier, rng):
    quick = tier == "quick"
    out = []
    one = [bytes([a]) for a in range(256)]
    two = [bytes([a, b]) for a in range(256) for b in range(256)]
    # every string of <= 1 byte on every (size, depth, flag) of a reduced grid; <= 2 bytes on tiny bitmaps
    grid = [0, 1, 2, 3, 9, 17]
    for w in grid:
        for h in grid:
            for bpp in ([16, 32] if quick else DEPTHS):
                for flag in (0, 1):
                    for d in [b""] + one: out.append(case(w, h, bpp, flag, d))
    cfg16 = [(2, 2)] if quick else [(0, 0), (1, 1), (2, 2), (3, 1), (1, 3), (9, 2)]
    for (w, h) in cfg16:
        for d in two: out.append(case(w, h, 16, 1, d))
    cfg32 = [(2, 1)] if quick else [(1, 1), (2, 1), (1, 2), (3, 2)]
    for (w, h) in cfg32:
        for d in two: out.append(case(w, h, 32, 1, b"\x10" + d))
    if not quick:
        third = [0, 1, 2, 3, 4, 5, 7, 8, 9, 0x0f, 0x10, 0x11, 0x12, 0x1f, 0x20, 0x21, 0x3f, 0x40, 0x41, 0x60, 0x61, 0x7f, 0x80, 0x81,
                 0xa0, 0xc0, 0xc1, 0xd0, 0xe1, 0xf0, 0xfe, 0xff]
        for d in two:
            for c in third:
                out.append(case(2, 2, 16, 1, d + bytes([c])))
                out.append(case(2, 2, 32, 1, b"\x10" + d + bytes([c])))
        for d in two:
            out.append(case(2, 2, 16, 0, d)); out.append(case(1, 1, 32, 0, d)); out.append(case(1, 1, 16, 0, d))
    return out

def random_cases(tier, rng):
    out = []
    for _ in range(4000 if tier == "quick" else 150000):
        w = rng.choice(SIZES + [5, 23, 100]); h = rng.choice(SIZES + [5, 23])
        bpp = rng.choice([16, 16, 16, 32, 32, 32] + DEPTHS); flag = rng.randrange(2)
        ln = rng.choice([0, 1, 2, 3, 4, 5, 8, 13, 21, 50, 120, w * h * 2, w * h * 4])
        d = bytes(rng.randrange(256) for _ in range(min(ln, 5000)))
        if bpp == 32 and flag and d and rng.random() < 0.8: d = b"\x10" + d[1:]
        out.append(case(w, h, bpp, flag, d))
    return out

def large_cases(tier, rng):
    out = []
    # dimensions near the top of u16: nothing that would touch the whole buffer
    for (w, h) in [(65535, 65535), (65535, 1), (1, 65535), (32768, 32768), (65535, 0), (0, 65535), (46341, 46341)]:
        for bpp in (8, 24, 0, 65535): out.append((case(w, h, bpp, 1, "00"), "err:NotImplemented"))
        if w * h:
            out.append((case(w, h, 16, 0, "0102"), "err:InvalidSize" if w * h > 1 else None))
            out.append((case(w, h, 32, 0, "01020304"), "err:InvalidSize" if w * h > 1 else None))
        else:
            out.append((case(w, h, 16, 0, "0102"), "ok " + summ(b"")))
            out.append((case(w, h, 32, 0, "-"), "ok " + summ(b"")))
            out.append((case(w, h, 32, 1, "10"), "ok " + summ(b"")))
            out.append((case(w, h, 16, 1, "-"), "ok " + summ(b"")))
    # 2^30 pixels: width*height*4 = 2^32 (4 GiB of lazily zeroed pages, one byte touched)
    out.append((case(32768, 32768, 32, 1, "10"), "err:Io"))
    out.append((case(32768, 32768, 32, 1, "101005"), "err:Io"))
    out.append((case(65535, 1, 32, 1, "10"), "err:Io"))
    out.append((case(1, 65535, 32, 1, "101007"), "err:Io"))
    out.append((case(65535, 1, 16, 1, "f0ffff"), None))
    out.append((case(1, 65535, 16, 1, "f3ffff3412"), None))
    return out

def gen_cases(tier, rng):
    cases = []
    cases += large_cases(tier, rng)
    cases += raw_cases(tier, rng)
    cases += [(c, None) for c in sweep_cases(tier, rng)]
    cases += [(c, None) for c in rle16_cases(tier, rng)]
    cases += rle32_cases(tier, rng)
    cases += [(c, None) for c in random_cases(tier, rng)]
    cases += [(c, None) for c in exhaustive_cases(tier, rng)]
    return cases

def _parse(line):
    t = line.split()
    return int(t[1]), int(t[2]), int(t[3]), t[4], t[5]

def classify(line, out):
    t = out.split()
    return t[0] if t else "none"

def _lenclass(d):
    if d == "-": return 0
    n = int(d[1:].split(":")[0]) if d.startswith("@") else len(d) // 2
    for k, b in enumerate([1, 2, 3, 4, 8, 16, 64, 256, 4096, 1 << 20]):
        if n <= b: return k + 1
    return 12

def _szclass(v):
    for k, b in enumerate([0, 1, 2, 3, 4, 8, 9, 16, 17, 32, 64, 255, 256, 1024, 65535]):
        if v <= b: return k
    return 99

def shape(line):
    w, h, bpp, flag, d = _parse(line)
    first = d[:2] if not d.startswith("@") and d != "-" else d[:1]
    second = d[2:4] if (bpp == 32 and flag == "1" and not d.startswith("@")) else ""
    return (_szclass(w), _szclass(h), bpp, flag, first, second, _lenclass(d))

def nontrivial(line, out):
    w, h, bpp, flag, d = _parse(line)
    return d != "-" and bpp in (16, 32)

def oracle(line, out, expect):
    """the property itself, judged on the implementation's outcome"""
    w, h, bpp, flag, d = _parse(line)
    parts = out.split(" #")
    res = parts[0].split()
    if not res or res[0] in ("panic", "spin", "crashed") or res[0].startswith("unknown") or res[0] == "bad-args":
        return "decompression did not return: " + out
    if res[0] == "ok":
        n = int(res[1].split(":")[0])
        if n != w * h * 4:
            return "returned %d bytes for a %dx%d bitmap (expected exactly %d)" % (n, w, h, w * h * 4)
    elif not res[0].startswith("err:"):
        return "unexpected outcome: " + out
    if len(parts) > 1 and parts[1].startswith("a="):
        a = int(parts[1][2:])
        if a > w * h * 4 + ALLOC_SLACK:
            return "largest allocation %d exceeds the output size %d (+%d)" % (a, w * h * 4, ALLOC_SLACK)
    # `expect` (the python reference decoder's exact output, where one exists) is NOT part of this oracle: pixel
    # exactness is property C09's statement, not C08's (C08: error or exactly w*h*4 bytes, no crash, bounded
    # allocation).  A decoder that returns the right number of wrong pixels breaks the model/implementation tie
    # (reported as `no-failing-input-found` here) and is a concrete violation for ./check C09.
    return None
