"""C20: the GUI receive thread keeps up with the server and stops with the session -- scenario generator and
oracle.  The thread (launch_rdp_thread of src/bin/mstsc-rs.rs) runs for real, over loopback TCP + in-process TLS,
inside harness-gui (see harness-gui/src/guiloop.rs for the case-line grammar):

  gui <seed> <pre> <gw> <dict> <step>...     steps: W:piece+piece (one TLS record) | P:ms | I:ms:expect | E:cn|fin|rst | S | J:ms
                                             | GL | GW | GU | GX  (the GUI thread, scripted: lock / try_write / unlock / shutdown)
  out: i:<events>:<state> ... g:ok|g:wait ... end:<state> ev=<ids> rel=<0|1> in=<n[+u][+c]|*>
       state = exited | blocked | spin | ? | late

PDU names: B<id>.<id>.. bitmap update carrying these event ids; O pointer update (no event); U disconnect
ultimatum; X undecodable PDU (Error::RdpError); Y undecodable PDU (Error::Io); DA SYNC COOP GRANTED FONTMAP
the activation sequence."""
from common import *
from rdp import *
from session import letter_frame
from c19 import impl_bin          # same implementation binary (rdpv-gui)

GROUP = "gui"
MODEL_FILES = ["coq/GuiLoop.v"]
PROFILES = ["debug", "release"]
RULE = ("scenario = sequence of 1-6 PDUs (bitmap updates with 0-3 events, pointer updates, the tail of the activation "
        "sequence) x packing into TLS records (one PDU per record; all in one record; groups; every PDU split over 2-3 "
        "records; record boundaries that straddle PDUs; random cuts) x pauses between records or none x end of session "
        "(disconnect ultimatum, undecodable PDU of either error class, each in its own record / coalesced behind data / "
        "split; TLS close_notify; FIN without alert; RST; connection closed in the middle of a PDU; none) x moment of the "
        "end (right after the last write, after the thread went back to select, while it is blocked inside a read) x "
        "protocol point (thread started before / inside / after activation) x a concurrent thread sending input through "
        "the shared client (seeded delays, up to 40 back-to-back writes) or not x the GUI thread's critical section placed "
        "step by step by the script (GL lock / GW try_write / GU unlock / GX shutdown, executed by a helper thread on the "
        "shared client): the GUI holds the mutex while data arrives (any packing), while the session ends (each end kind), "
        "while both happen; the GUI's lock() blocks on a thread sitting in a half-received PDU and the rest arrives / the "
        "connection ends; the GUI clears `sync` (in select, inside a read, while the thread waits for the mutex) and runs "
        "main_gui_loop's shutdown, the server stays silent / sends more / closes.  Observed: events forwarded at every idle probe (server silent) and "
        "at the end, thread state by its CPU clock (blocked / spinning / finished), join within the deadline, the shared "
        "client released, whether each scripted GUI step completed or had to wait for the mutex, the input PDUs / "
        "ultimatum / close_notify the server has seen from the client.  Non-trivial = the thread forwarded events or ended; distinct = distinct (packing class, end "
        "kind, placement, writer, outcome).")
TRUSTED_BASE = ["Coq 8.16.1 kernel",
                "hand-written model coq/GuiLoop.v (the loop as repaired) tied to /repo by this correspondence run",
                "extraction (ExtrOcamlBasic only) + ocaml/gui/driver.ml",
                "harness-gui/src/guiloop.rs: in-process native-tls server over loopback TCP, thread CPU clock as spin detector, "
                "deadlines (3 s join + 5 s grace, 2 s per idle probe; late / inconclusive measurements are retried and then reported, never passed)",
                "the kernel's select(2)/TCP and OpenSSL's record processing (no read-ahead: SSL_pending covers exactly the current record)",
                "std::sync::Mutex and the OS scheduler: the fairness hypothesis of the theorems (the thread gets fuel_of turns at moments when "
                "the GUI does not hold the mutex) is ASSUMED of them; the scripted GUI steps (g:ok = completed, g:wait = still blocked after "
                "300 ms with the mutex demonstrably held by somebody else) make the model's mutex states observable on the real threads",
                "abstraction of plaintext bytes to tokens (a PDU = fragments + a final token) and of RdpClient::read to "
                "'consumes one PDU, returns Ok / Err of a class' (decoding itself is C06/C10)"]
ASSUMPTIONS = ["PARTIAL BY NATURE: the mutex and the GUI thread are in the model (every interleaving of lock / write / unlock / stop with "
               "the thread's steps), but what the real scheduler and std::sync::Mutex guarantee is not: liveness theorems assume the stated "
               "fairness (the thread gets fuel_of turns while the GUI does not hold the mutex); not modelled: mutex poisoning (a panic inside "
               "read), a full socket send buffer (a server that stops reading blocks try_write inside the mutex), try_write before the end of "
               "the activation sequence (InvalidAutomata, nothing written), select(2) corner cases (EINTR makes wait_for_fd return false and "
               "the thread end), TCP segmentation inside a TLS record, OpenSSL's actual record coalescing and its behaviour when read and "
               "shutdown meet; those are only sampled by the seeded runs",
               "OBSERVATION, outside the statement (C20_stop_needs_wakeup, reproduced by the `S GL GX GU` scenarios): the thread is not told "
               "about `sync` being cleared until the socket becomes readable; main_gui_loop's shutdown() does not make it readable, so the "
               "process exit waits for the server's reaction to the client's disconnect ultimatum",
               "OBSERVATION (C20_no_deadlock, second clause, reproduced by the `g:wait` scenarios): while the thread sits in a half-received "
               "PDU it holds the mutex, and the GUI loop's lock() -- hence the window -- is frozen until the server completes the PDU"]

ACT = ["DA", "SYNC", "COOP", "GRANTED", "FONTMAP"]

def bmp(ids):
    return fp_frame(fp_bitmap([bitmap_rect(i, 0, i, 0, 1, 1, 32, 0, bytes(4)) for i in ids]))

def pdu_bytes(name):
    if name in ACT: return letter_frame(name)
    if name[0] == "B":
        ids = [int(x) for x in name[1:].split(".")] if len(name) > 1 else []
        return bmp(ids)
    if name == "O": return fp_frame(fp_ptr_null())
    if name == "U": return tpkt(x224_data(b"\x21\x80"))
    if name == "X": return tpkt(x224_data(b"\x00\x00\x00\x00\x00\x00\x00\x00"))     # MCS: invalid opcode
    if name == "Y": return tpkt(x224_data(b""))                                       # MCS header missing: Error::Io
    if name == "XU": return slow_frame(font_map(), chan=1004)                         # data on the joined USER channel: RdpError(UnexpectedType)
    if name == "Z": return bytes([0, 2])                                              # an EMPTY fast-path PDU (header only): read, no event
    raise ValueError(name)

def base(piece): return piece.split("/")[0]

def mk(steps, pre=5, gw="0:0", seed=1):
    names = set(ACT[:pre])
    for s in steps:
        if s.startswith("W:"):
            for p in s[2:].split("+"): names.add(base(p))
    dic = ",".join("%s=%s" % (n, pdu_bytes(n).hex()) for n in sorted(names))
    return "gui %d %s %s %s %s" % (seed, "+".join(ACT[:pre]) if pre else "-", gw, dic or "-", " ".join(steps))

# ---- packings: a list of PDU names -> a list of records (each a list of pieces)
def pack_one(pdus): return [[p] for p in pdus]
def pack_all(pdus): return [list(pdus)]
def pack_groups(pdus, k): return [pdus[i:i + k] for i in range(0, len(pdus), k)]
def pack_split(pdus, n): return [["%s/%d/%d" % (p, i, n)] for p in pdus for i in range(n)]
def pack_straddle(pdus):
    """every record boundary falls inside a PDU: [P1 a] [P1 b + P2 a] [P2 b + P3 a] ... [Pn b]"""
    recs = [["%s/0/2" % pdus[0]]]
    for i in range(len(pdus) - 1):
        recs.append(["%s/1/2" % pdus[i], "%s/0/2" % pdus[i + 1]])
    recs.append(["%s/1/2" % pdus[-1]])
    return recs
def pack_random(pdus, rng):
    pieces = []
    for p in pdus:
        n = rng.choice([1, 1, 2, 3])
        pieces += [p] if n == 1 else ["%s/%d/%d" % (p, i, n) for i in range(n)]
    recs = []; cur = []
    for pc in pieces:
        cur.append(pc)
        if rng.random() < 0.5: recs.append(cur); cur = []
    if cur: recs.append(cur)
    return recs

PACKINGS = ["one", "all", "pairs", "split2", "split3", "straddle", "random"]
def pack(kind, pdus, rng):
    if kind == "one": return pack_one(pdus)
    if kind == "all": return pack_all(pdus)
    if kind == "pairs": return pack_groups(pdus, 2)
    if kind == "split2": return pack_split(pdus, 2)
    if kind == "split3": return pack_split(pdus, 3)
    if kind == "straddle": return pack_straddle(pdus)
    return pack_random(pdus, rng)

def nevents(pdus): return sum(len(p[1:].split(".")) for p in pdus if p[0] == "B" and len(p) > 1)

ENDS = ["U", "X", "Y", "cn", "fin", "rst", "none"]

def scenario(pdus, packing, end, place, pauses, rng, pre=5, gw="0:0", seed=1, probe=60):
    """place (PDU-level ends): 'own' record | 'coalesced' behind the last data record | 'split' in two records;
       (socket-level ends): 'idle' after the thread went back to select | 'now' right after the last write |
       'midpdu' while the thread is blocked inside a read of half a PDU"""
    recs = pack(packing, pdus, rng) if pdus else []
    n = nevents(pdus)
    pdu_end = end in ("U", "X", "Y")
    if pdu_end and place == "coalesced" and recs:
        recs[-1] = recs[-1] + [end]
    steps = []
    for i, r in enumerate(recs):
        steps.append("W:" + "+".join(r))
        if pauses and i + 1 < len(recs): steps.append("P:%d" % rng.choice([1, 5, 15]))
    if pdu_end:
        if place == "coalesced" and recs:
            pass
        elif place == "split":
            if recs: steps.append("I:%d:%d" % (probe, n))
            steps += ["W:%s/0/2" % end, "P:10", "W:%s/1/2" % end]
        else:
            if recs and (place == "own-idle" or rng.random() < 0.5): steps.append("I:%d:%d" % (probe, n))
            steps.append("W:" + end)
        steps.append("J:3000")
    elif end in ("cn", "fin", "rst"):
        if place == "midpdu":
            steps.append("I:%d:%d" % (probe, n))
            steps += ["W:B900/0/2", "P:20", "E:" + end]
        elif place == "now" and end != "rst":
            steps.append("E:" + end)
        else:
            steps += ["I:%d:%d" % (probe, n), "E:" + end]
        steps.append("J:3000")
    else:
        steps += ["I:%d:%d" % (probe, n), "J:150"]
    return mk(steps, pre=pre, gw=gw, seed=seed)

def rand_pdus(rng, nmax=6):
    out = []; nid = 1
    for _ in range(rng.randrange(1, nmax + 1)):
        k = rng.random()
        if k < 0.2: out.append("O")
        elif k < 0.3: out.append("B")
        else:
            c = rng.choice([1, 1, 2, 3]); out.append("B" + ".".join(str(nid + j) for j in range(c))); nid += c
    return out

def gen_cases(tier, rng):
    quick = tier == "quick"
    cases = []
    def add(line): cases.append((line, None))
    std = ["B1", "B2.3", "O", "B4"]
    # 1. the full grid on a standard 4-PDU burst: packing x end x placement x pauses
    for packing in PACKINGS:
        for end in ENDS:
            places = (["own", "own-idle", "coalesced", "split"] if end in ("U", "X", "Y") else
                      ["idle", "now", "midpdu"] if end in ("cn", "fin", "rst") else ["-"])
            for place in places:
                for pauses in (False, True):
                    add(scenario(std, packing, end, place, pauses, rng, seed=rng.randrange(1 << 30)))
    # 2. the same ends with nothing sent before, and with a single PDU
    for end in ENDS:
        for pdus in ([], ["B1"], ["O"]):
            for place in (["own", "split"] if end in ("U", "X", "Y") else ["idle", "now", "midpdu"] if end != "none" else ["-"]):
                add(scenario(pdus, "one", end, place, False, rng))
    # 3. a concurrent writer taking the client mutex (the GUI loop's part), seeded delays
    for _ in range(40 if quick else 400):
        pdus = rand_pdus(rng)
        end = rng.choice(ENDS)
        place = rng.choice(["own", "coalesced", "split"] if end in ("U", "X", "Y") else ["idle", "now", "midpdu"])
        add(scenario(pdus, rng.choice(PACKINGS), end, place, rng.random() < 0.5, rng,
                     gw="%d:%d" % (rng.randrange(1, 8), rng.choice([1, 3, 10])), seed=rng.randrange(1 << 30)))
    # 4. protocol point: the thread is started before / inside the activation sequence and sees its tail itself
    for pre in range(0, 5):
        for packing in ["one", "all", "straddle", "split2"]:
            tail = ACT[pre:]
            for end in ["U", "cn", "rst", "none", "Y"]:
                add(scenario(tail + ["B1", "B2"], packing, end, "own" if end in ("U", "Y") else "idle", False, rng, pre=pre))
            # the session ends INSIDE the activation sequence
            add(scenario(tail[:1], "one", "fin", "now", False, rng, pre=pre))
            add(scenario(tail[:2], packing, "U", "coalesced", False, rng, pre=pre))
    # 5. random scenarios
    for _ in range(150 if quick else 3000):
        pdus = rand_pdus(rng)
        end = rng.choice(ENDS)
        place = rng.choice(["own", "own-idle", "coalesced", "split"] if end in ("U", "X", "Y") else ["idle", "now", "midpdu"])
        add(scenario(pdus, rng.choice(PACKINGS), end, place, rng.random() < 0.5, rng, seed=rng.randrange(1 << 30)))
    # 6. several bursts separated by silence: the thread must be back in select and catch up each time
    for _ in range(30 if quick else 300):
        steps = []; nid = 1; n = 0
        for b in range(rng.randrange(2, 4)):
            pdus = []
            for _ in range(rng.randrange(1, 4)):
                c = rng.choice([1, 2]); pdus.append("B" + ".".join(str(nid + j) for j in range(c))); nid += c; n += c
            for r in pack(rng.choice(PACKINGS), pdus, rng): steps.append("W:" + "+".join(r))
            steps.append("I:60:%d" % n)
        end = rng.choice(["U", "cn", "fin", "rst", "none"])
        steps += (["W:U"] if end == "U" else ["E:" + end] if end != "none" else []) + ["J:%d" % (150 if end == "none" else 3000)]
        add(mk(steps, seed=rng.randrange(1 << 30)))
    # 7. the GUI clears `sync`: the thread leaves at the next wake-up (model comparison only)
    add(mk(["W:B1", "I:60:1", "S", "W:B2", "J:3000"]))
    add(mk(["S", "E:cn", "J:3000"]))
    add(mk(["W:B1", "I:60:1", "S", "W:U", "J:3000"]))
    # 8. long bursts inside ONE TLS record followed by silence: every PDU the TLS layer already holds must be dispatched
    #    without further traffic, however many they are (a bound on the PDUs handled per wake-up shows only beyond it)
    for n in ([17, 40] if quick else [15, 16, 17, 18, 31, 32, 33, 64, 100, 150]):
        pdus = ["B%d" % i for i in range(1, n + 1)]
        add(mk(["W:" + "+".join(pdus), "I:100:%d" % n, "J:150"]))
        add(mk(["W:" + "+".join(pdus + ["U"]), "J:3000"]))
        add(mk(["W:" + "+".join(pdus), "I:100:%d" % n, "E:cn", "J:3000"]))
        add(mk(["W:" + "+".join(pdus[:n // 2]), "W:" + "+".join(pdus[n // 2:]), "I:100:%d" % n, "W:U", "J:3000"]))
    # 9. the GUI thread's critical sections, placed step by step (GL lock / GW try_write / GU unlock / GX shutdown).
    #    Every probe that the script takes while the outcome depends on a race is avoided: a GL is issued only after a
    #    pause or probe has let the thread come to rest, so that who holds the mutex is determined.
    for line in gui_scenarios(tier, rng): add(line)
    # 10. an empty fast-path PDU (header only) in front of / between / behind bitmap PDUs of the same record; an error of the
    #     kind UnexpectedType (data on the user channel) as the end of the session; odd seeds run the session as NLA (Hybrid)
    for sd in (1, 2):
        add(mk(["W:Z+B1", "I:100:1", "J:150"], seed=sd))
        add(mk(["W:B1+Z+B2+Z", "I:100:2", "W:U", "J:3000"], seed=sd))
        add(mk(["W:Z", "I:100:0", "W:B1", "I:100:1", "W:Z+U", "J:3000"], seed=sd))
        add(mk(["W:B1", "I:60:1", "W:XU", "J:3000"], seed=sd))
        add(mk(["W:B1+B2+XU", "J:3000"], seed=sd))
        add(mk(["W:B1+B2", "I:100:2", "J:150"], seed=sd))
        add(mk(["W:B1+B2+B3", "P:5", "W:B4+U", "J:3000"], seed=sd))
    return cases

def ids_of(pdus): return nevents(pdus)

def gui_scenarios(tier, rng):
    quick = tier == "quick"
    out = []
    def fresh(first, k):
        """k bitmap PDUs with fresh event ids starting at `first`"""
        pd = []; nid = first
        for _ in range(k):
            c = rng.choice([1, 1, 2]); pd.append("B" + ".".join(str(nid + j) for j in range(c))); nid += c
        return pd, nid
    def writes(pdus, packing):
        return ["W:" + "+".join(r) for r in pack(packing, pdus, rng)]
    packs = PACKINGS if not quick else ["one", "all", "straddle", "split2", "random"]
    ends = ["U", "X", "Y", "cn", "fin", "rst", "none"]
    def finish(end, n, steps, held=False):
        """the session's end after the last probe (the GUI not holding the mutex)"""
        if end in ("U", "X", "Y"): steps += ["W:" + end, "J:3000"]
        elif end in ("cn", "fin", "rst"): steps += ["E:" + end, "J:3000"]
        else: steps += ["J:150"]
        return steps
    # (a) the GUI holds the mutex while data arrives: nothing is forwarded until it lets go, then everything is
    for packing in packs:
        for end in (ends if not quick else ["U", "fin", "none", rng.choice(["X", "Y", "cn", "rst"])]):
            a, nid = fresh(1, rng.randrange(0, 3)); b, nid = fresh(nid, rng.randrange(1, 4))
            na, nb = nevents(a), nevents(b)
            steps = (writes(a, "one") if a else []) + ["I:40:%d" % na, "GL"] + ["GW"] * rng.randrange(0, 3) + writes(b, packing)
            steps += ["I:50:%d" % na] + ["GW"] * rng.randrange(0, 2) + ["GU", "I:40:%d" % (na + nb)]
            out.append(mk(finish(end, na + nb, steps), seed=rng.randrange(1 << 30)))
    # (b) the GUI holds the mutex while the session ends: the thread cannot stop before the GUI lets go, and must then
    for end in ["U", "X", "Y", "cn", "fin", "rst"]:
        for with_data in (False, True):
            for rep in range(1 if quick else 4):
                a, nid = fresh(1, rng.randrange(0, 3)); na = nevents(a)
                b, nid = (fresh(nid, rng.randrange(1, 3)) if with_data and end != "rst" else ([], nid)); nb = nevents(b)
                steps = (writes(a, "one") if a else []) + ["I:40:%d" % na, "GL"] + ["GW"] * rng.randrange(0, 2)
                if end in ("U", "X", "Y"):
                    pk = rng.choice(["one", "all", "straddle"]) if b else "one"
                    recs = pack(pk, b, rng) if b else []
                    if recs and rng.random() < 0.5: recs[-1] = recs[-1] + [end]       # coalesced behind the data
                    else: recs.append([end])
                    steps += ["W:" + "+".join(r) for r in recs]
                else:
                    steps += writes(b, rng.choice(["one", "all", "split2"])) if b else []
                    steps += ["E:" + end]
                steps += ["I:50:%d" % na, "GU", "J:3000"]
                out.append(mk(steps, seed=rng.randrange(1 << 30)))
    # (c) the GUI's lock() blocks on a thread that sits in a half-received PDU (mutex held inside read); then the rest
    #     arrives / the connection ends
    for how in ["rest", "rest+more", "cn", "fin", "rst", "U-after-rest"]:
        for rep in range(1 if quick else 4):
            a, nid = fresh(1, rng.randrange(0, 2)); na = nevents(a)
            n = rng.choice([2, 3])
            steps = (writes(a, "one") if a else []) + ["I:40:%d" % na, "W:B%d/0/%d" % (nid, n), "I:40:%d" % na, "GL"]
            rest = ["W:B%d/%d/%d" % (nid, i, n) for i in range(1, n)]
            if how == "rest": steps += rest + ["I:40:%d" % (na + 1), "GW", "GU", "I:30:%d" % (na + 1), "J:150"]
            elif how == "rest+more":
                # more data behind the rest of the PDU: thread and GUI race for the mutex after the first PDU when the records
                # are separate; in ONE record the thread keeps the mutex until the TLS layer is empty (drain loop)
                steps += ["W:B%d/%d/%d+B%d" % (nid, n - 1, n, nid + 1)] if n == 2 else rest[:-1] + [rest[-1][0:] + "+B%d" % (nid + 1)]
                steps += ["I:40:%d" % (na + 2), "GU", "J:150"]
            elif how == "U-after-rest": steps += rest[:-1] + [rest[-1] + "+U", "P:30", "GU", "J:3000"]
            else: steps += ["E:" + how, "P:30", "GW", "GU", "J:3000"]
            out.append(mk(steps, seed=rng.randrange(1 << 30)))
    # (d) input written between and during bursts: the server sees every input PDU, the events are untouched
    for rep in range(6 if quick else 60):
        steps = []; nid = 1; n = 0; held = False
        for b in range(rng.randrange(2, 4)):
            pd, nid2 = fresh(nid, rng.randrange(1, 3)); k = nevents(pd)
            steps += ["GL"] + ["GW"] * rng.randrange(1, 4)
            if rng.random() < 0.5:
                steps += writes(pd, rng.choice(packs)) + ["P:20", "GU"]
            else:
                steps += ["GU"] + writes(pd, rng.choice(packs))
            n += k; nid = nid2
            steps += ["I:40:%d" % n]
        out.append(mk(finish(rng.choice(["U", "cn", "none"]), n, steps), seed=rng.randrange(1 << 30)))
    # (e) the GUI stops the thread (clears `sync`), at each moment of the cycle, with and without main_gui_loop's shutdown;
    #     then the server stays silent (thread stays in select: observation), sends more (not forwarded) or closes
    for moment in ["select", "midpdu", "atlock"]:
        for shut in (False, True):
            for after in ["silent", "more", "cn", "fin", "rst", "U"]:
                if quick and rng.random() < 0.4 and not (moment == "select" and shut): continue
                steps = ["W:B1", "I:40:1"]; n = 1
                if moment == "select": steps += ["S"]
                elif moment == "midpdu": steps += ["W:B2/0/2", "I:40:1", "S", "W:B2/1/2+B3", "I:40:3"]; n = 3
                else: steps += ["GL", "W:B2", "P:40", "S", "GU", "I:40:2"]; n = 2
                if shut: steps += ["GL", "GX", "GU"]
                steps += ["I:60:%d" % n]
                if after == "silent": steps += ["J:300"]
                elif after == "more": steps += ["W:B9", "J:3000"]
                elif after == "U": steps += ["W:B9+U", "J:3000"]
                else: steps += ["E:" + after, "J:3000"]
                out.append(mk(steps, seed=rng.randrange(1 << 30)))
    # (f) a hammering writer: many back-to-back lock / try_write / unlock cycles while bursts arrive and the session ends
    for rep in range(12 if quick else 150):
        pdus = rand_pdus(rng)
        end = rng.choice(ENDS)
        place = rng.choice(["own", "coalesced", "split"] if end in ("U", "X", "Y") else ["idle", "now", "midpdu"])
        out.append(scenario(pdus, rng.choice(PACKINGS), end, place, rng.random() < 0.5, rng,
                            gw="%d:%d" % (rng.choice([20, 40]), rng.choice([0, 0, 1])), seed=rng.randrange(1 << 30)))
    return out

# ------------------------------------------------------------------------------------------ oracle

def parse_script(line):
    a = line.split()
    return dict(seed=int(a[1]), pre=a[2], gw=a[3], steps=a[5:])

def reference(steps):
    """property-level expectation, computed from the script alone: events that must have been forwarded at every
    probe and at the end, and whether the session has ended.  A PDU counts once its last piece was written while
    the connection was open; nothing counts after the first failing PDU or after the GUI stopped.
    While the GUI thread asks for / holds the client mutex (between a GL and its GU) the receive thread cannot be
    expected to forward anything new: a probe taken then must show at least what was due when the GL was issued
    (`lo`) and at most everything sent (`hi`); the property is about what the thread does when it can run."""
    ev = []; probes = []; ended = False; closed = False; stopped = False; failed = False; rst = False
    held = False; due = 0; inputs = 0
    for s in steps:
        k, _, rest = s.partition(":")
        if k == "W" and not closed:
            for p in rest.split("+"):
                f = p.split("/")
                last = len(f) == 1 or int(f[1]) == int(f[2]) - 1
                if not last or failed: continue
                n = f[0]
                if n[0] in "UXY": failed = True; ended = True
                elif n[0] == "B" and len(n) > 1 and not stopped: ev += [int(x) for x in n[1:].split(".")]
        elif k == "I": probes.append((len(ev) if not held else due, len(ev)))
        elif k == "E":
            if not closed: closed = True; ended = True; rst = rst or rest == "rst"
        elif k == "S": stopped = True
        elif k == "GL":
            if not held: held = True; due = len(ev)
        elif k == "GU": held = False
        elif k == "GW": inputs += 1
    return dict(ev=ev, probes=probes, ended=ended, stopped=stopped, rst=rst, held=held, inputs=inputs)

def parse_out(out):
    head = out.split(" #")[0].split()
    probes = []; end = None; ev = None; rel = None
    for t in head:
        if t.startswith("i:"): _, n, st = t.split(":"); probes.append((int(n), st))
        elif t.startswith("end:"): end = t[4:]
        elif t.startswith("ev="): ev = [] if t == "ev=-" else [int(x) for x in t[3:].split(".")]
        elif t.startswith("rel="): rel = t[4:]
    return probes, end, ev, rel

def kind_of(line):
    sc = parse_script(line)["steps"]
    ws = [s[2:] for s in sc if s.startswith("W:")]
    split = any("/" in w for w in ws); coal = any("+" in w for w in ws)
    end = "none"
    for s in sc:
        if s.startswith("E:"): end = s[2:]
    for w in ws:
        for p in w.split("+"):
            if p[0] in "UXY" and end == "none": end = p[0]
    return ("split" if split else "") + ("coal" if coal else "") or "plain", end

def is_result(out): return out.startswith("i:") or out.startswith("end:") or out.startswith("g:")

def classify(line, out):
    if not out or not is_result(out): return out.split()[0] if out else "none"
    probes, end, ev, rel = parse_out(out)
    inc = any(st in ("?", "late") for _, st in probes) or end in ("?", "late")
    return ("inconclusive-" if inc else "") + "end:" + str(end)

def shape(line):
    sc = parse_script(line)
    g = "".join(s[1] for s in sc["steps"] if s[0] == "G")
    return kind_of(line) + (sc["pre"], sc["gw"] != "0:0", len([s for s in sc["steps"] if s.startswith("W:")]), g[:6], "S" in sc["steps"])

def nontrivial(line, out):
    if not is_result(out): return False
    probes, end, ev, rel = parse_out(out)
    return bool(ev) or end == "exited"

def oracle(line, out, expect):
    """judges only what the property states: the thread keeps up (no waiting for further traffic), stops with the
    session (whatever the error kind), forwards what it received in order, never spins"""
    if not is_result(out):
        return "scenario could not be run / crashed: " + out[:80]
    probes, end, ev, rel = parse_out(out)
    ref = reference(parse_script(line)["steps"])
    states = [st for _, st in probes] + [end]
    if "spin" in states: return "the thread spins (busy loop): " + out[:120]
    if "?" in states or "late" in states:
        return "inconclusive measurement even after retries (load?) -- not a pass: " + out[:160]
    if ref["stopped"]: return None
    for i, ((n, st), (lo, hi)) in enumerate(zip(probes, ref["probes"])):
        if n < lo:
            return "idle probe %d: %d of the %d events sent so far were forwarded while the server was silent" % (i, n, lo)
        if n > hi:
            return "idle probe %d: %d events forwarded, only %d were sent" % (i, n, hi)
        if st == "exited" and not ref["ended"]:
            return "the thread ended although the session is alive"
    if ref["held"]: return None          # the script ends with the GUI thread holding the mutex: the thread cannot move
    if ref["ended"]:
        if end != "exited": return "the session has ended but the thread did not stop (%s)" % end
        if rel != "1": return "the thread stopped but the shared client was not released"
    if ref["rst"]:
        if ev != ref["ev"][:len(ev)]: return "forwarded events are not a prefix of the events sent: %s vs %s" % (ev, ref["ev"])
    elif ev != ref["ev"]:
        return "forwarded events %s differ from the events sent %s" % (ev, ref["ev"])
    return None
