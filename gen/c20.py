"""C20: the GUI receive thread keeps up with the server and stops with the session -- scenario generator and
oracle.  The thread (launch_rdp_thread of src/bin/mstsc-rs.rs) runs for real, over loopback TCP + in-process TLS,
inside harness-gui (see harness-gui/src/guiloop.rs for the case-line grammar):

  gui <seed> <pre> <gw> <dict> <step>...     steps: W:piece+piece (one TLS record) | P:ms | I:ms:expect | E:cn|fin|rst | S | J:ms
  out: i:<events>:<state> ... end:<state> ev=<ids> rel=<0|1>     state = exited | blocked | spin | ? | late

PDU names: B<id>.<id>.. bitmap update carrying these event ids; O pointer update (no event); U disconnect
ultimatum; X undecodable PDU (Error::RdpError); Y undecodable PDU (Error::Io); DA SYNC COOP GRANTED FONTMAP
the activation sequence."""
from common import *
from rdp import *
from session import letter_frame
from c19 import impl_bin          # same implementation binary (rdpv-gui)

GROUP = "gui"
MODEL_FILES = ["coq/GuiLoop.v"]
PROFILES = ["debug", "release"]
RULE = ("scenario = sequence of 1-6 PDUs (bitmap updates with 0-3 events, pointer updates, the tail of the activation "
        "sequence) x packing into TLS records (one PDU per record; all in one record; groups; every PDU split over 2-3 "
        "records; record boundaries that straddle PDUs; random cuts) x pauses between records or none x end of session "
        "(disconnect ultimatum, undecodable PDU of either error class, each in its own record / coalesced behind data / "
        "split; TLS close_notify; FIN without alert; RST; connection closed in the middle of a PDU; none) x moment of the "
        "end (right after the last write, after the thread went back to select, while it is blocked inside a read) x "
        "protocol point (thread started before / inside / after activation) x a concurrent thread sending input through "
        "the shared client (seeded delays) or not.  Observed: events forwarded at every idle probe (server silent) and "
        "at the end, thread state by its CPU clock (blocked / spinning / finished), join within the deadline, the shared "
        "client released.  Non-trivial = the thread forwarded events or ended; distinct = distinct (packing class, end "
        "kind, placement, writer, outcome).")
TRUSTED_BASE = ["Coq 8.16.1 kernel",
                "hand-written model coq/GuiLoop.v (the loop as repaired) tied to /repo by this correspondence run",
                "extraction (ExtrOcamlBasic only) + ocaml/gui/driver.ml",
                "harness-gui/src/guiloop.rs: in-process native-tls server over loopback TCP, thread CPU clock as spin detector, "
                "deadlines (3 s join + 5 s grace, 2 s per idle probe; late / inconclusive measurements are retried and then reported, never passed)",
                "the kernel's select(2)/TCP and OpenSSL's record processing (no read-ahead: SSL_pending covers exactly the current record)",
                "abstraction of plaintext bytes to tokens (a PDU = fragments + a final token) and of RdpClient::read to "
                "'consumes one PDU, returns Ok / Err of a class' (decoding itself is C06/C10)"]
ASSUMPTIONS = ["PARTIAL BY NATURE: the model cannot exhibit real scheduler interleavings, mutex fairness between the GUI and "
               "receive threads, select(2) corner cases (EINTR makes wait_for_fd return false and the thread end), TCP "
               "segmentation inside a TLS record, or OpenSSL's actual record coalescing; those are only sampled by the seeded runs",
               "the thread is not told about `sync` being cleared until the socket becomes readable (not part of the property)"]

ACT = ["DA", "SYNC", "COOP", "GRANTED", "FONTMAP"]

def bmp(ids):
    return fp_frame(fp_bitmap([bitmap_rect(i, 0, i, 0, 1, 1, 32, 0, bytes(4)) for i in ids]))

def pdu_bytes(name):
    if name in ACT: return letter_frame(name)
    if name[0] == "B":
        ids = [int(x) for x in name[1:].split(".")] if len(name) > 1 else []
        return bmp(ids)
    if name == "O": return fp_frame(fp_ptr_null())
    if name == "U": return tpkt(x224_data(b"\x21\x80"))
    if name == "X": return tpkt(x224_data(b"\x00\x00\x00\x00\x00\x00\x00\x00"))     # MCS: invalid opcode
    if name == "Y": return tpkt(x224_data(b""))                                       # MCS header missing: Error::Io
    raise ValueError(name)

def base(piece): return piece.split("/")[0]

def mk(steps, pre=5, gw="0:0", seed=1):
    names = set(ACT[:pre])
    for s in steps:
        if s.startswith("W:"):
            for p in s[2:].split("+"): names.add(base(p))
    dic = ",".join("%s=%s" % (n, pdu_bytes(n).hex()) for n in sorted(names))
    return "gui %d %s %s %s %s" % (seed, "+".join(ACT[:pre]) if pre else "-", gw, dic or "-", " ".join(steps))

# ---- packings: a list of PDU names -> a list of records (each a list of pieces)
def pack_one(pdus): return [[p] for p in pdus]
def pack_all(pdus): return [list(pdus)]
def pack_groups(pdus, k): return [pdus[i:i + k] for i in range(0, len(pdus), k)]
def pack_split(pdus, n): return [["%s/%d/%d" % (p, i, n)] for p in pdus for i in range(n)]
def pack_straddle(pdus):
    """every record boundary falls inside a PDU: [P1 a] [P1 b + P2 a] [P2 b + P3 a] ... [Pn b]"""
    recs = [["%s/0/2" % pdus[0]]]
    for i in range(len(pdus) - 1):
        recs.append(["%s/1/2" % pdus[i], "%s/0/2" % pdus[i + 1]])
    recs.append(["%s/1/2" % pdus[-1]])
    return recs
def pack_random(pdus, rng):
    pieces = []
    for p in pdus:
        n = rng.choice([1, 1, 2, 3])
        pieces += [p] if n == 1 else ["%s/%d/%d" % (p, i, n) for i in range(n)]
    recs = []; cur = []
    for pc in pieces:
        cur.append(pc)
        if rng.random() < 0.5: recs.append(cur); cur = []
    if cur: recs.append(cur)
    return recs

PACKINGS = ["one", "all", "pairs", "split2", "split3", "straddle", "random"]
def pack(kind, pdus, rng):
    if kind == "one": return pack_one(pdus)
    if kind == "all": return pack_all(pdus)
    if kind == "pairs": return pack_groups(pdus, 2)
    if kind == "split2": return pack_split(pdus, 2)
    if kind == "split3": return pack_split(pdus, 3)
    if kind == "straddle": return pack_straddle(pdus)
    return pack_random(pdus, rng)

def nevents(pdus): return sum(len(p[1:].split(".")) for p in pdus if p[0] == "B" and len(p) > 1)

ENDS = ["U", "X", "Y", "cn", "fin", "rst", "none"]

def scenario(pdus, packing, end, place, pauses, rng, pre=5, gw="0:0", seed=1, probe=60):
    """place (PDU-level ends): 'own' record | 'coalesced' behind the last data record | 'split' in two records;
       (socket-level ends): 'idle' after the thread went back to select | 'now' right after the last write |
       'midpdu' while the thread is blocked inside a read of half a PDU"""
    recs = pack(packing, pdus, rng) if pdus else []
    n = nevents(pdus)
    pdu_end = end in ("U", "X", "Y")
    if pdu_end and place == "coalesced" and recs:
        recs[-1] = recs[-1] + [end]
    steps = []
    for i, r in enumerate(recs):
        steps.append("W:" + "+".join(r))
        if pauses and i + 1 < len(recs): steps.append("P:%d" % rng.choice([1, 5, 15]))
    if pdu_end:
        if place == "coalesced" and recs:
            pass
        elif place == "split":
            if recs: steps.append("I:%d:%d" % (probe, n))
            steps += ["W:%s/0/2" % end, "P:10", "W:%s/1/2" % end]
        else:
            if recs and (place == "own-idle" or rng.random() < 0.5): steps.append("I:%d:%d" % (probe, n))
            steps.append("W:" + end)
        steps.append("J:3000")
    elif end in ("cn", "fin", "rst"):
        if place == "midpdu":
            steps.append("I:%d:%d" % (probe, n))
            steps += ["W:B900/0/2", "P:20", "E:" + end]
        elif place == "now" and end != "rst":
            steps.append("E:" + end)
        else:
            steps += ["I:%d:%d" % (probe, n), "E:" + end]
        steps.append("J:3000")
    else:
        steps += ["I:%d:%d" % (probe, n), "J:150"]
    return mk(steps, pre=pre, gw=gw, seed=seed)

def rand_pdus(rng, nmax=6):
    out = []; nid = 1
    for _ in range(rng.randrange(1, nmax + 1)):
        k = rng.random()
        if k < 0.2: out.append("O")
        elif k < 0.3: out.append("B")
        else:
            c = rng.choice([1, 1, 2, 3]); out.append("B" + ".".join(str(nid + j) for j in range(c))); nid += c
    return out

def gen_cases(tier, rng):
    quick = tier == "quick"
    cases = []
    def add(line): cases.append((line, None))
    std = ["B1", "B2.3", "O", "B4"]
    # 1. the full grid on a standard 4-PDU burst: packing x end x placement x pauses
    for packing in PACKINGS:
        for end in ENDS:
            places = (["own", "own-idle", "coalesced", "split"] if end in ("U", "X", "Y") else
                      ["idle", "now", "midpdu"] if end in ("cn", "fin", "rst") else ["-"])
            for place in places:
                for pauses in (False, True):
                    add(scenario(std, packing, end, place, pauses, rng, seed=rng.randrange(1 << 30)))
    # 2. the same ends with nothing sent before, and with a single PDU
    for end in ENDS:
        for pdus in ([], ["B1"], ["O"]):
            for place in (["own", "split"] if end in ("U", "X", "Y") else ["idle", "now", "midpdu"] if end != "none" else ["-"]):
                add(scenario(pdus, "one", end, place, False, rng))
    # 3. a concurrent writer taking the client mutex (the GUI loop's part), seeded delays
    for _ in range(40 if quick else 400):
        pdus = rand_pdus(rng)
        end = rng.choice(ENDS)
        place = rng.choice(["own", "coalesced", "split"] if end in ("U", "X", "Y") else ["idle", "now", "midpdu"])
        add(scenario(pdus, rng.choice(PACKINGS), end, place, rng.random() < 0.5, rng,
                     gw="%d:%d" % (rng.randrange(1, 8), rng.choice([1, 3, 10])), seed=rng.randrange(1 << 30)))
    # 4. protocol point: the thread is started before / inside the activation sequence and sees its tail itself
    for pre in range(0, 5):
        for packing in ["one", "all", "straddle", "split2"]:
            tail = ACT[pre:]
            for end in ["U", "cn", "rst", "none", "Y"]:
                add(scenario(tail + ["B1", "B2"], packing, end, "own" if end in ("U", "Y") else "idle", False, rng, pre=pre))
            # the session ends INSIDE the activation sequence
            add(scenario(tail[:1], "one", "fin", "now", False, rng, pre=pre))
            add(scenario(tail[:2], packing, "U", "coalesced", False, rng, pre=pre))
    # 5. random scenarios
    for _ in range(150 if quick else 3000):
        pdus = rand_pdus(rng)
        end = rng.choice(ENDS)
        place = rng.choice(["own", "own-idle", "coalesced", "split"] if end in ("U", "X", "Y") else ["idle", "now", "midpdu"])
        add(scenario(pdus, rng.choice(PACKINGS), end, place, rng.random() < 0.5, rng, seed=rng.randrange(1 << 30)))
    # 6. several bursts separated by silence: the thread must be back in select and catch up each time
    for _ in range(30 if quick else 300):
        steps = []; nid = 1; n = 0
        for b in range(rng.randrange(2, 4)):
            pdus = []
            for _ in range(rng.randrange(1, 4)):
                c = rng.choice([1, 2]); pdus.append("B" + ".".join(str(nid + j) for j in range(c))); nid += c; n += c
            for r in pack(rng.choice(PACKINGS), pdus, rng): steps.append("W:" + "+".join(r))
            steps.append("I:60:%d" % n)
        end = rng.choice(["U", "cn", "fin", "rst", "none"])
        steps += (["W:U"] if end == "U" else ["E:" + end] if end != "none" else []) + ["J:%d" % (150 if end == "none" else 3000)]
        add(mk(steps, seed=rng.randrange(1 << 30)))
    # 7. the GUI clears `sync`: the thread leaves at the next wake-up (model comparison only)
    add(mk(["W:B1", "I:60:1", "S", "W:B2", "J:3000"]))
    add(mk(["S", "E:cn", "J:3000"]))
    add(mk(["W:B1", "I:60:1", "S", "W:U", "J:3000"]))
    # 8. long bursts inside ONE TLS record followed by silence: every PDU the TLS layer already holds must be dispatched
    #    without further traffic, however many they are (a bound on the PDUs handled per wake-up shows only beyond it)
    for n in ([17, 40] if quick else [15, 16, 17, 18, 31, 32, 33, 64, 100, 150]):
        pdus = ["B%d" % i for i in range(1, n + 1)]
        add(mk(["W:" + "+".join(pdus), "I:100:%d" % n, "J:150"]))
        add(mk(["W:" + "+".join(pdus + ["U"]), "J:3000"]))
        add(mk(["W:" + "+".join(pdus), "I:100:%d" % n, "E:cn", "J:3000"]))
        add(mk(["W:" + "+".join(pdus[:n // 2]), "W:" + "+".join(pdus[n // 2:]), "I:100:%d" % n, "W:U", "J:3000"]))
    return cases

# ------------------------------------------------------------------------------------------ oracle

def parse_script(line):
    a = line.split()
    return dict(seed=int(a[1]), pre=a[2], gw=a[3], steps=a[5:])

def reference(steps):
    """property-level expectation, computed from the script alone: events that must have been forwarded at every
    probe and at the end, and whether the session has ended.  A PDU counts once its last piece was written while
    the connection was open; nothing counts after the first failing PDU or after the GUI stopped."""
    ev = []; probes = []; ended = False; closed = False; stopped = False; failed = False; rst = False
    for s in steps:
        k, _, rest = s.partition(":")
        if k == "W" and not closed:
            for p in rest.split("+"):
                f = p.split("/")
                last = len(f) == 1 or int(f[1]) == int(f[2]) - 1
                if not last or failed: continue
                n = f[0]
                if n[0] in "UXY": failed = True; ended = True
                elif n[0] == "B" and len(n) > 1 and not stopped: ev += [int(x) for x in n[1:].split(".")]
        elif k == "I": probes.append(len(ev))
        elif k == "E":
            if not closed: closed = True; ended = True; rst = rst or rest == "rst"
        elif k == "S": stopped = True
    return dict(ev=ev, probes=probes, ended=ended, stopped=stopped, rst=rst)

def parse_out(out):
    head = out.split(" #")[0].split()
    probes = []; end = None; ev = None; rel = None
    for t in head:
        if t.startswith("i:"): _, n, st = t.split(":"); probes.append((int(n), st))
        elif t.startswith("end:"): end = t[4:]
        elif t.startswith("ev="): ev = [] if t == "ev=-" else [int(x) for x in t[3:].split(".")]
        elif t.startswith("rel="): rel = t[4:]
    return probes, end, ev, rel

def kind_of(line):
    sc = parse_script(line)["steps"]
    ws = [s[2:] for s in sc if s.startswith("W:")]
    split = any("/" in w for w in ws); coal = any("+" in w for w in ws)
    end = "none"
    for s in sc:
        if s.startswith("E:"): end = s[2:]
    for w in ws:
        for p in w.split("+"):
            if p[0] in "UXY" and end == "none": end = p[0]
    return ("split" if split else "") + ("coal" if coal else "") or "plain", end

def classify(line, out):
    if not out or not out.startswith("i:") and not out.startswith("end:"): return out.split()[0] if out else "none"
    probes, end, ev, rel = parse_out(out)
    inc = any(st in ("?", "late") for _, st in probes) or end in ("?", "late")
    return ("inconclusive-" if inc else "") + "end:" + str(end)

def shape(line):
    sc = parse_script(line)
    return kind_of(line) + (sc["pre"], sc["gw"] != "0:0", len([s for s in sc["steps"] if s.startswith("W:")]))

def nontrivial(line, out):
    if not (out.startswith("i:") or out.startswith("end:")): return False
    probes, end, ev, rel = parse_out(out)
    return bool(ev) or end == "exited"

def oracle(line, out, expect):
    """judges only what the property states: the thread keeps up (no waiting for further traffic), stops with the
    session (whatever the error kind), forwards what it received in order, never spins"""
    if not (out.startswith("i:") or out.startswith("end:")):
        return "scenario could not be run / crashed: " + out[:80]
    probes, end, ev, rel = parse_out(out)
    ref = reference(parse_script(line)["steps"])
    states = [st for _, st in probes] + [end]
    if "spin" in states: return "the thread spins (busy loop): " + out[:120]
    if "?" in states or "late" in states:
        return "inconclusive measurement even after retries (load?) -- not a pass: " + out[:160]
    if ref["stopped"]: return None
    for i, ((n, st), want) in enumerate(zip(probes, ref["probes"])):
        if n != want:
            return "idle probe %d: %d of the %d events sent so far were forwarded while the server was silent" % (i, n, want)
        if st == "exited" and not ref["ended"]:
            return "the thread ended although the session is alive"
    if ref["ended"]:
        if end != "exited": return "the session has ended but the thread did not stop (%s)" % end
        if rel != "1": return "the thread stopped but the shared client was not released"
    if ref["rst"]:
        if ev != ref["ev"][:len(ev)]: return "forwarded events are not a prefix of the events sent: %s vs %s" % (ev, ref["ev"])
    elif ev != ref["ev"]:
        return "forwarded events %s differ from the events sent %s" % (ev, ref["ev"])
    return None
