"""Reference ENCODERS for the server side of the RDP connection sequence (X.224 connection confirm,
MCS connect-response with GCC conference-create-response, attach-user / channel-join confirms,
licensing), written from MS-RDPBCGR 2.2.1.*, T.125 and T.124 -- independent of the implementation
and of the Coq model.  Every length is computed unless overridden, so that a fault can be placed
inside a structure while the enclosing headers stay consistent."""
import struct
from common import *
from rdp import *

def be32(v): return struct.pack(">I", v & 0xffffffff)

# ------------------------------------------------------------------ X.224 connection confirm
def neg_rsp(selected=0, typ=2, flags=0, length=8):
    return bytes([typ, flags]) + le16(length) + le32(selected)

def x224_cc(neg=None, li=None, code=0xd0, dst=0, src=0, cls=0):
    neg = neg_rsp() if neg is None else neg
    body = bytes([code]) + be16(dst) + be16(src) + bytes([cls]) + neg
    return bytes([len(body) if li is None else li]) + body

def cc_frame(selected=0, **kw):
    return tpkt(x224_cc(neg_rsp(selected, **kw)))

# ------------------------------------------------------------------ BER (definite lengths, as a server emits them)
def ber_len(n, form=None):
    """form None = minimal; k = long form with k length bytes"""
    if form is None:
        if n < 0x80: return bytes([n])
        k = (n.bit_length() + 7) // 8
        return bytes([0x80 | k]) + n.to_bytes(k, "big")
    return bytes([0x80 | form]) + n.to_bytes(form, "big")

def ber_tlv(tag, content, length=None, form=None):
    tag = bytes([tag]) if isinstance(tag, int) else tag
    return tag + ber_len(len(content) if length is None else length, form) + content

def ber_int(v, tag=2):
    n = max(1, (v.bit_length() + 8) // 8)
    return ber_tlv(tag, v.to_bytes(n, "big"))

def domain_params(vals=(22, 3, 0, 1, 0, 1, 0xfff8, 2)):
    return ber_tlv(0x30, b"".join(ber_int(v) for v in vals))

def connect_response(user_data, result=0, connect_id=0, params=None, outer_len=None, ud_len=None, form=None):
    inner = ber_int(result, tag=10) + ber_int(connect_id) + (domain_params() if params is None else params) \
            + ber_tlv(4, user_data, length=ud_len, form=form)
    return ber_tlv(b"\x7f\x66", inner, length=outer_len, form=form)

# ------------------------------------------------------------------ GCC conference create response
def gcc_block(typ, body, length=None):
    return le16(typ) + le16((len(body) + 4) if length is None else length) + body

def sc_core(version=0x00080004, requested=0, flags=None):
    b = le32(version)
    if requested is not None: b += le32(requested)
    if flags is not None: b += le32(flags)
    return gcc_block(0x0c01, b)

def sc_security(method=0, level=0):
    return gcc_block(0x0c02, le32(method) + le32(level))

def sc_net(io=1003, channels=(), count=None):
    body = le16(io) + le16(len(channels) if count is None else count) + b"".join(le16(c) for c in channels)
    if len(channels) % 2: body += b"\x00\x00"
    return gcc_block(0x0c03, body)

def gcc_ccr(blocks=None, length1=None, length2=None, key=b"McDn", node=0x760a, tag_int=1, result=0):
    blocks = (sc_core() + sc_security() + sc_net()) if blocks is None else blocks
    tail = bytes([0x14]) + be16(node) + bytes([1, tag_int, result, 1, 0xc0, 0]) + key \
           + per_len(len(blocks) if length2 is None else length2) + blocks
    return bytes([0, 5, 0, 0x14, 0x7c, 0, 1]) + per_len(len(tail) if length1 is None else length1) + tail

def mcs_connect_response_frame(gcc=None, **kw):
    return tpkt(x224_data(connect_response(gcc_ccr() if gcc is None else gcc, **kw)))

# ------------------------------------------------------------------ MCS attach / join confirms
def attach_confirm(uid=1004, result=0, opcode=11, bits=2):
    return bytes([(opcode << 2) | bits, result]) + be16(uid - 1001)

def join_confirm(uid=1004, chan=1003, result=0, opcode=15, bits=2, chan2=None):
    return bytes([(opcode << 2) | bits, result]) + be16(uid - 1001) + be16(chan) + be16(chan if chan2 is None else chan2)

def attach_frame(**kw): return tpkt(x224_data(attach_confirm(**kw)))
def join_frame(**kw): return tpkt(x224_data(join_confirm(**kw)))

# ------------------------------------------------------------------ security header + licensing
def lic_preamble(msg_type, body, flags=3, size=None):
    return bytes([msg_type, flags]) + le16((len(body) + 4) if size is None else size) + body

def lic_blob(typ=0, data=b"", length=None):
    return le16(typ) + le16(len(data) if length is None else length) + data

def lic_error(code=7, transition=2, blob=None):
    return le32(code) + le32(transition) + (lic_blob() if blob is None else blob)

def lic_valid_client(**kw):
    return lic_preamble(0xff, lic_error(**kw))

def lic_new_license(body=b"\x00" * 8):
    return lic_preamble(3, body)

def sec_license(lic=None, flags=0x0080, flags_hi=0):
    return le16(flags) + le16(flags_hi) + (lic_valid_client() if lic is None else lic)

def license_frame(lic=None, uid=1004, chan=1003, **kw):
    return slow_frame(sec_license(lic, **kw), uid=uid, chan=chan)

# ------------------------------------------------------------------ a whole conversation
STEPS = ["cc", "mcs", "attach", "join1", "join2", "lic"]

def conversation(uid=1004, selected=0, order="g", version=0x00080004):
    """server frames of a connection that succeeds, join confirms in the order the client will ask"""
    chans = [1003, uid] if order == "g" else [uid, 1003]
    return [cc_frame(selected),
            mcs_connect_response_frame(gcc_ccr(sc_core(version) + sc_security() + sc_net())),
            attach_frame(uid=uid),
            join_frame(uid=uid, chan=chans[0]),
            join_frame(uid=uid, chan=chans[1]),
            license_frame(uid=uid)]

def conn_case(frames, offered=0, auth=0, ram=0, order="g", name=b"rdp-rs", dom=b"d", user=b"u", pw=b"p"):
    return "conn %d %d %d %s %s %s %s %s %s" % (offered, auth, ram, order, hx(name), hx(dom), hx(user), hx(pw),
                                               " ".join(hx(f) for f in frames) if frames else "-")

# ------------------------------------------------------------------ C02: negotiation cases
def neg_case(reply, post, api="x224", offered=3, auth=1, ram=0, check=0, ident="0", order="g",
             name=b"rdp-rs", dom=b"d", user=b"u", pw=b"p"):
    """reply = bytes the server sends after the connection request (None: it closes); post = frames after the negotiation"""
    return "neg %s %d %d %d %d %s %s %s %s %s %s %s %s" % (api, offered, auth, ram, check, ident, order, hx(name), hx(dom), hx(user), hx(pw),
                                                          "-" if reply is None else hx(reply), " ".join(hx(f) for f in post) if post else "")
