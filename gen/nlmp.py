"""Independent MS-NLMP reference used by the oracles of C16 (and later C15/C01/C17):
hand-written RC4 and MD4, hashlib MD5, stdlib HMAC; SIGNKEY / SEALKEY / MAC / SEAL with
extended session security + key exchange + 128-bit (MS-NLMP 3.4.3 - 3.4.5), and a conforming
receiver that checks the whole 16-byte signature against ITS OWN sequence number."""
import hashlib, hmac as _hmac, struct

class RC4:
    def __init__(self, key):
        assert 1 <= len(key) <= 256
        S = list(range(256)); j = 0
        for i in range(256):
            j = (j + S[i] + key[i % len(key)]) & 255
            S[i], S[j] = S[j], S[i]
        self.S, self.i, self.j = S, 0, 0
    def crypt(self, data):
        S, i, j = self.S, self.i, self.j
        out = bytearray(len(data))
        for n, x in enumerate(data):
            i = (i + 1) & 255
            j = (j + S[i]) & 255
            S[i], S[j] = S[j], S[i]
            out[n] = x ^ S[(S[i] + S[j]) & 255]
        self.i, self.j = i, j
        return bytes(out)
    def clone(self):
        c = RC4.__new__(RC4); c.S = list(self.S); c.i = self.i; c.j = self.j; return c

def md5(b): return hashlib.md5(b).digest()
def hmac_md5(k, b): return _hmac.new(k, b, hashlib.md5).digest()

def md4(msg):
    """RFC 1320"""
    def rol(x, s): return ((x << s) | (x >> (32 - s))) & 0xffffffff
    h = [0x67452301, 0xefcdab89, 0x98badcfe, 0x10325476]
    m = msg + b"\x80" + b"\x00" * ((55 - len(msg)) % 64) + struct.pack("<Q", 8 * len(msg))
    for off in range(0, len(m), 64):
        X = struct.unpack("<16I", m[off:off + 64])
        a, b, c, d = h
        for k in range(16):
            s = (3, 7, 11, 19)[k % 4]
            a, b, c, d = d, rol((a + ((b & c) | (~b & d)) + X[k]) & 0xffffffff, s), b, c
        order2 = (0, 4, 8, 12, 1, 5, 9, 13, 2, 6, 10, 14, 3, 7, 11, 15)
        for n, k in enumerate(order2):
            s = (3, 5, 9, 13)[n % 4]
            a, b, c, d = d, rol((a + ((b & c) | (b & d) | (c & d)) + X[k] + 0x5a827999) & 0xffffffff, s), b, c
        order3 = (0, 8, 4, 12, 2, 10, 6, 14, 1, 9, 5, 13, 3, 11, 7, 15)
        for n, k in enumerate(order3):
            s = (3, 9, 11, 15)[n % 4]
            a, b, c, d = d, rol((a + (b ^ c ^ d) + X[k] + 0x6ed9eba1) & 0xffffffff, s), b, c
        h = [(x + y) & 0xffffffff for x, y in zip(h, (a, b, c, d))]
    return struct.pack("<4I", *h)

def _magic(sender, what):
    d = "client-to-server" if sender == "client" else "server-to-client"
    return ("session key to %s %s key magic constant" % (d, what)).encode("ascii") + b"\x00"
def signkey(k, sender): return md5(k + _magic(sender, "signing"))
def sealkey(k, sender): return md5(k + _magic(sender, "sealing"))

class Dir:
    """one direction of a session: cipher handle, signing key, sequence number"""
    def __init__(self, sealk, signk, seq=0):
        self.h = RC4(sealk); self.k = signk; self.seq = seq & 0xffffffff
    def mac(self, msg):
        d = hmac_md5(self.k, struct.pack("<I", self.seq) + msg)[:8]
        sig = struct.pack("<I", 1) + self.h.crypt(d) + struct.pack("<I", self.seq)
        self.seq = (self.seq + 1) & 0xffffffff
        return sig
    def seal(self, msg):
        sealed = self.h.crypt(msg)
        return self.mac(msg) + sealed
    def unseal(self, token):
        """conforming receiver: None when the token is not exactly what SEAL produces next"""
        if len(token) < 16: return None
        msg = self.h.crypt(token[16:])
        return msg if self.mac(msg) == token[:16] else None

def session(k):
    """(client->server, server->client) directions of a fresh session under exported session key k"""
    return Dir(sealkey(k, "client"), signkey(k, "client")), Dir(sealkey(k, "server"), signkey(k, "server"))

if __name__ == "__main__":
    assert md4(b"foo").hex() == "0ac6700c491d70fb8650940b1ca1e4b2"
    assert md4(b"").hex() == "31d6cfe0d16ae931b73c59d7e0c089c0"
    assert md4(b"12345678901234567890123456789012345678901234567890123456789012345678901234567890").hex() == "e33b4ddc9c38f2199c3e7b164fcc0536"
    assert RC4(b"Key").crypt(b"Plaintext").hex() == "bbf316e8d940af0ad3"
    assert signkey(b"foo", "client") == bytes([253, 238, 149, 155, 221, 78, 43, 179, 82, 61, 111, 132, 168, 68, 222, 15])
    assert sealkey(b"foo", "server") == bytes([64, 125, 160, 17, 144, 165, 62, 226, 22, 125, 128, 31, 103, 141, 55, 40])
    d = Dir(b"encrypt", b"signing")
    assert d.seal(b"foo") == bytes([1, 0, 0, 0, 142, 146, 37, 160, 247, 244, 100, 58, 0, 0, 0, 0, 87, 164, 208])
    print("ok")
