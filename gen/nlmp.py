"""Independent MS-NLMP reference used by the oracles of C16 (and later C15/C01/C17):
hand-written RC4 and MD4, hashlib MD5, stdlib HMAC; SIGNKEY / SEALKEY / MAC / SEAL with
extended session security + key exchange + 128-bit (MS-NLMP 3.4.3 - 3.4.5), and a conforming
receiver that checks the whole 16-byte signature against ITS OWN sequence number."""
import hashlib, hmac as _hmac, struct

class RC4:
    def __init__(self, key):
        assert 1 <= len(key) <= 256
        S = list(range(256)); j = 0
        for i in range(256):
            j = (j + S[i] + key[i % len(key)]) & 255
            S[i], S[j] = S[j], S[i]
        self.S, self.i, self.j = S, 0, 0
    def crypt(self, data):
        S, i, j = self.S, self.i, self.j
        out = bytearray(len(data))
        for n, x in enumerate(data):
            i = (i + 1) & 255
            j = (j + S[i]) & 255
            S[i], S[j] = S[j], S[i]
            out[n] = x ^ S[(S[i] + S[j]) & 255]
        self.i, self.j = i, j
        return bytes(out)
    def clone(self):
        c = RC4.__new__(RC4); c.S = list(self.S); c.i = self.i; c.j = self.j; return c

def md5(b): return hashlib.md5(b).digest()
def hmac_md5(k, b): return _hmac.new(k, b, hashlib.md5).digest()

def md4(msg):
    """RFC 1320"""
    def rol(x, s): return ((x << s) | (x >> (32 - s))) & 0xffffffff
    h = [0x67452301, 0xefcdab89, 0x98badcfe, 0x10325476]
    m = msg + b"\x80" + b"\x00" * ((55 - len(msg)) % 64) + struct.pack("<Q", 8 * len(msg))
    for off in range(0, len(m), 64):
        X = struct.unpack("<16I", m[off:off + 64])
        a, b, c, d = h
        for k in range(16):
            s = (3, 7, 11, 19)[k % 4]
            a, b, c, d = d, rol((a + ((b & c) | (~b & d)) + X[k]) & 0xffffffff, s), b, c
        order2 = (0, 4, 8, 12, 1, 5, 9, 13, 2, 6, 10, 14, 3, 7, 11, 15)
        for n, k in enumerate(order2):
            s = (3, 5, 9, 13)[n % 4]
            a, b, c, d = d, rol((a + ((b & c) | (b & d) | (c & d)) + X[k] + 0x5a827999) & 0xffffffff, s), b, c
        order3 = (0, 8, 4, 12, 2, 10, 6, 14, 1, 9, 5, 13, 3, 11, 7, 15)
        for n, k in enumerate(order3):
            s = (3, 9, 11, 15)[n % 4]
            a, b, c, d = d, rol((a + (b ^ c ^ d) + X[k] + 0x6ed9eba1) & 0xffffffff, s), b, c
        h = [(x + y) & 0xffffffff for x, y in zip(h, (a, b, c, d))]
    return struct.pack("<4I", *h)

def _magic(sender, what):
    d = "client-to-server" if sender == "client" else "server-to-client"
    return ("session key to %s %s key magic constant" % (d, what)).encode("ascii") + b"\x00"
def signkey(k, sender): return md5(k + _magic(sender, "signing"))
def sealkey(k, sender): return md5(k + _magic(sender, "sealing"))

class Dir:
    """one direction of a session: cipher handle, signing key, sequence number"""
    def __init__(self, sealk, signk, seq=0):
        self.h = RC4(sealk); self.k = signk; self.seq = seq & 0xffffffff
    def mac(self, msg):
        d = hmac_md5(self.k, struct.pack("<I", self.seq) + msg)[:8]
        sig = struct.pack("<I", 1) + self.h.crypt(d) + struct.pack("<I", self.seq)
        self.seq = (self.seq + 1) & 0xffffffff
        return sig
    def seal(self, msg):
        sealed = self.h.crypt(msg)
        return self.mac(msg) + sealed
    def unseal(self, token):
        """conforming receiver: None when the token is not exactly what SEAL produces next"""
        if len(token) < 16: return None
        msg = self.h.crypt(token[16:])
        return msg if self.mac(msg) == token[:16] else None

def session(k):
    """(client->server, server->client) directions of a fresh session under exported session key k"""
    return Dir(sealkey(k, "client"), signkey(k, "client")), Dir(sealkey(k, "server"), signkey(k, "server"))

# ---------------------------------------------------------------------------------------------
# NTLMv2 authentication (MS-NLMP 3.3.2, 3.1.5.1.2, 3.2.5.1.2): CHALLENGE builder and the SERVER side
NEG_UNICODE, NEG_KEY_EXCH, NEG_VERSION = 0x00000001, 0x40000000, 0x02000000
CLIENT_FLAGS = 0x60088235      # what the client's NEGOTIATE asks for
AV_EOL, AV_NB_COMPUTER, AV_NB_DOMAIN, AV_DNS_COMPUTER, AV_DNS_DOMAIN, AV_DNS_TREE, AV_FLAGS, AV_TIMESTAMP, AV_SINGLE_HOST, AV_TARGET_NAME, AV_CHANNEL_BINDINGS = range(11)

def utf16(s): return s.encode("utf-16-le")
def nt_hash(password): return md4(utf16(password))
def ntowfv2(nthash, user_upper, domain): return hmac_md5(nthash, utf16(user_upper + domain))

def av_pairs(pairs):
    """[(id, value)] -> bytes, EOL appended"""
    return b"".join(struct.pack("<HH", i, len(v)) + v for i, v in pairs) + struct.pack("<HH", 0, 0)

def challenge_message(flags, server_challenge, target_info, target_name=b"", version=b"\x06\x01\xb1\x1d\x00\x00\x00\x0f", pre=b"", post=b""):
    """CHALLENGE_MESSAGE: payload = pre ++ target_name ++ target_info ++ post"""
    hdr = 48 + (8 if flags & NEG_VERSION else 0)
    tn_off = hdr + len(pre)
    ti_off = tn_off + len(target_name)
    m = b"NTLMSSP\x00" + struct.pack("<I", 2) + struct.pack("<HHI", len(target_name), len(target_name), tn_off)
    m += struct.pack("<I", flags) + server_challenge + b"\x00" * 8 + struct.pack("<HHI", len(target_info), len(target_info), ti_off)
    if flags & NEG_VERSION: m += version
    return m + pre + target_name + target_info + post

class Reject(Exception): pass

def parse_av(ti):
    out = []; i = 0
    while True:
        if i + 4 > len(ti): raise Reject("AV pair list not terminated")
        aid, ln = struct.unpack_from("<HH", ti, i); i += 4
        if aid == AV_EOL: return out
        if i + ln > len(ti): raise Reject("AV pair overruns")
        out.append((aid, ti[i:i + ln])); i += ln

def server_verify(user, domain, nthash, negotiate, challenge, token, upper=None, oem_codec="ascii"):
    """An independent server: returns the exported session key when `token` authenticates the account
    (user, domain, NT hash) in reply to `challenge`; raises Reject(reason) otherwise.
    upper = the server's uppercase mapping (default: python str.upper)"""
    up = upper if upper is not None else user.upper()
    if len(token) < 64: raise Reject("shorter than the fixed AUTHENTICATE header")
    if token[:8] != b"NTLMSSP\x00" or struct.unpack_from("<I", token, 8)[0] != 3: raise Reject("signature / message type")
    flags = struct.unpack_from("<I", token, 60)[0]
    fixed = 64 + (8 if flags & NEG_VERSION else 0) + 16           # ... Version (when flagged), MIC
    if len(token) < fixed: raise Reject("no room for Version / MIC")
    mic_off = fixed - 16
    def field(pos, name):
        ln, mx, off = struct.unpack_from("<HHI", token, pos)
        if mx < ln: raise Reject(name + ": MaxLen < Len")
        if off < fixed or off + ln > len(token): raise Reject("%s: (len %d, offset %d) outside the token payload [%d, %d)" % (name, ln, off, fixed, len(token)))
        return token[off:off + ln]
    lm, nt, dom_b, user_b, ws, ek = [field(12 + 8 * i, n) for i, n in enumerate(
        ["LmChallengeResponse", "NtChallengeResponse", "DomainName", "UserName", "Workstation", "EncryptedRandomSessionKey"])]
    enc = utf16 if flags & NEG_UNICODE else (lambda x: x.encode(oem_codec))
    try:
        if user_b != enc(user): raise Reject("UserName does not name the account")
        if dom_b != enc(domain): raise Reject("DomainName does not name the account's domain")
    except UnicodeEncodeError:
        raise Reject("OEM-mode name outside ASCII (not decided here)")
    # the server's own CHALLENGE
    server_challenge = challenge[24:32]
    ti_len, _, ti_off = struct.unpack_from("<HHI", challenge, 40)
    target_info = challenge[ti_off:ti_off + ti_len]
    key = ntowfv2(nthash, up, domain)
    if len(nt) < 16 + 28: raise Reject("NtChallengeResponse too short for NTLMv2")
    proof, temp = nt[:16], nt[16:]
    if temp[0:2] != b"\x01\x01" or temp[2:8] != b"\x00" * 6 or temp[24:28] != b"\x00" * 4: raise Reject("NTLMv2_CLIENT_CHALLENGE framing")
    if hmac_md5(key, server_challenge + temp) != proof: raise Reject("NTProofStr does not verify")
    if not temp[28:].startswith(target_info): raise Reject("AV pairs of the CHALLENGE not echoed")
    ts = [v for i, v in parse_av(target_info) if i == AV_TIMESTAMP]
    if ts and temp[8:16] != ts[-1]: raise Reject("timestamp of the CHALLENGE not echoed")
    client_challenge = temp[16:24]
    if len(lm) != 24 or lm[16:] != client_challenge: raise Reject("LMv2 response does not carry the client challenge")
    if hmac_md5(key, server_challenge + client_challenge) != lm[:16]: raise Reject("LMv2 proof does not verify")
    session_base_key = hmac_md5(key, proof)
    kxk = session_base_key
    if flags & NEG_KEY_EXCH:
        if len(ek) != 16: raise Reject("EncryptedRandomSessionKey is not 16 bytes")
        exported = RC4(kxk).crypt(ek)
    else:
        exported = kxk
    mic = token[mic_off:mic_off + 16]
    zeroed = token[:mic_off] + b"\x00" * 16 + token[mic_off + 16:]
    if hmac_md5(exported, negotiate + challenge + zeroed) != mic: raise Reject("MIC does not verify")
    return exported, client_challenge

def client_token(user, domain, nthash, negotiate, challenge, nonce, session_key, upper=None):
    """What an MS-NLMP client (with this client's layout choices: no workstation, Version only when
    flagged, AV pairs echoed unchanged, no trailing Z(4)) sends for the given randomness."""
    up = upper if upper is not None else user.upper()
    flags = struct.unpack_from("<I", challenge, 20)[0]
    sc = challenge[24:32]
    ti_len, _, ti_off = struct.unpack_from("<HHI", challenge, 40)
    ti = challenge[ti_off:ti_off + ti_len]
    ts = [v for i, v in parse_av(ti) if i == AV_TIMESTAMP][-1]
    key = ntowfv2(nthash, up, domain)
    temp = b"\x01\x01" + b"\x00" * 6 + ts + nonce + b"\x00" * 4 + ti
    proof = hmac_md5(key, sc + temp)
    nt = proof + temp
    lm = hmac_md5(key, sc + nonce) + nonce
    ek = RC4(hmac_md5(key, proof)).crypt(session_key)
    enc = utf16 if flags & NEG_UNICODE else (lambda x: x.encode("utf-8"))
    fields = [lm, nt, enc(domain), enc(user), b"", ek]
    off = 64 + (8 if flags & NEG_VERSION else 0) + 16
    hdr = b"NTLMSSP\x00" + struct.pack("<I", 3)
    for f in fields:
        hdr += struct.pack("<HHI", len(f), len(f), off); off += len(f)
    hdr += struct.pack("<I", flags)
    if flags & NEG_VERSION: hdr += bytes([6, 0]) + struct.pack("<H", 6002) + bytes([0, 0, 0, 15])
    payload = b"".join(fields)
    m = hmac_md5(session_key, negotiate + challenge + hdr + b"\x00" * 16 + payload)
    return hdr + m + payload

if __name__ == "__main__":
    assert md4(b"foo").hex() == "0ac6700c491d70fb8650940b1ca1e4b2"
    assert md4(b"").hex() == "31d6cfe0d16ae931b73c59d7e0c089c0"
    assert md4(b"12345678901234567890123456789012345678901234567890123456789012345678901234567890").hex() == "e33b4ddc9c38f2199c3e7b164fcc0536"
    assert RC4(b"Key").crypt(b"Plaintext").hex() == "bbf316e8d940af0ad3"
    assert signkey(b"foo", "client") == bytes([253, 238, 149, 155, 221, 78, 43, 179, 82, 61, 111, 132, 168, 68, 222, 15])
    assert sealkey(b"foo", "server") == bytes([64, 125, 160, 17, 144, 165, 62, 226, 22, 125, 128, 31, 103, 141, 55, 40])
    d = Dir(b"encrypt", b"signing")
    assert d.seal(b"foo") == bytes([1, 0, 0, 0, 142, 146, 37, 160, 247, 244, 100, 58, 0, 0, 0, 0, 87, 164, 208])
    # repo test vectors: test_ntowfv2, test_compute_response_v2
    assert ntowfv2(nt_hash("foo"), "USER", "domain").hex() == "6e53b900978c871f91de06449d8b8b81"
    print("ok")
