"""C01: NLA releases credentials only after the server proves the session key -- generator and oracle.
Case line (harness/src/csspgate.rs): the real nla::cssp::cssp_connect over a scripted transport
  cssp <pw|hash> <dom> <user> <password code points | NT hash hex> <upper(user)> <ra 0|1> <certificate DER | none>
       <subjectPublicKey bytes> <rnd: nonce(8) ++ exported session key(16)> <reply>,<reply>..
  ->   <ok | err:Kind | panic> n=<writes> <write hex>...
The oracle is the python CredSSP / MS-NLMP reference of gen/credssp.py + gen/nlmp.py: the third message (the sealed
credentials) may exist only if the reply of the last round carries, sealed and signed under the server-to-client
session keys, a value numerically equal to (public key of the certificate the client saw) + 1; otherwise the result
is an error and exactly two messages were written."""
from common import *
import struct, hashlib
import nlmp, credssp

GROUP = "csspgate"
MODEL_FILES = ["coq/CsspGate.v", "coq/CsspGateExec.v", "coq/DerRead.v", "coq/Ntlm.v", "coq/NtlmSeal.v", "coq/Link.v"]
PROFILES = ["debug", "release"]
RULE = ("honest CredSSP/NTLM exchanges (password / NT-hash / restricted-admin, UNICODE and OEM, VERSION on/off, two certificates) "
        "with the server's replies precomputed from preset client randomness; for the reply of the last round: EVERY single-bit "
        "flip of the sealed pubKeyAuth token (exhaustive) and of the TSRequest wrapper, numeric offsets k in -2..300 and 2^n, the "
        "key+1 with trailing zero bytes (numerically equal), replies sealed under another session key, proofs for the other "
        "certificate (both directions), reflection of the client's own token, every truncation point (sampled above 40), "
        "extensions, non-minimal / indefinite / trailing-garbage DER, missing reply, wrong sequence number; plus failures of "
        "the earlier rounds.  Observation = result and every message written.  distinct = distinct (alteration class, outcome).")
TRUSTED_BASE = ["Coq 8.16.1 kernel (vm_compute for the concrete example)",
                "hand-written model coq/CsspGate.v over Ntlm.v / NtlmSeal.v / Link.v, executable instance CsspGateExec.v with the DER reader model DerRead.v (sibling's model of yasna), tied to /repo by this correspondence run",
                "extraction (ExtrOcamlBasic only) + ocaml/csspgate/driver.ml",
                "Rust harness/src/csspgate.rs; hooks model::link::verif (preset peer certificate: NO TLS in this harness), model::rnd::verif, ntlm::verif",
                "python oracle gen/credssp.py + gen/nlmp.py",
                "external and not modelled: native-tls peer_certificate / to_der, x509-parser SPKI extraction (the public key bytes are a parameter of the model), yasna (modelled by DerRead.v)"]
ASSUMPTIONS = ["theorems: any md5/hmac with 16-byte digests, any DER codec functions, any certificate key bytes; rejection of altered SeqNum/ciphertext, wrong-key and reflected tokens under the explicit premise that the 8-byte HMAC-MD5 prefix does not collide",
               "the comparison is numeric on little-endian big integers: encodings of key+1 with trailing zero bytes are accepted (stated in the theorem as le_nat pt = le_nat pubkey + 1)",
               "writes on the link succeed; one transport read returns one server message of at most 1500 bytes"]

NEG = bytes.fromhex("4e544c4d53535000010000003582086000000000000000000000000000000000")
def cps(s): return ".".join("%x" % ord(c) for c in s) or "-"
def rbytes(rng, n): return bytes(rng.randrange(256) for _ in range(n))

class Cfg:
    def __init__(self, rng, user, dom, pw, flags, mode="pw", ra=False, cert=0):
        self.user, self.dom, self.pw, self.mode, self.ra, self.cert = user, dom, pw, mode, ra, cert
        ti = nlmp.av_pairs([(2, nlmp.utf16("DOM")), (1, nlmp.utf16("SRV")), (7, rbytes(rng, 8)), (3, nlmp.utf16("srv.dom"))])
        self.chal = nlmp.challenge_message(flags, rbytes(rng, 8), ti, target_name=nlmp.utf16("DOM"), version=rbytes(rng, 8))
        self.nonce, self.key = rbytes(rng, 8), rbytes(rng, 16)
        self.run = credssp.Run(user, dom, pw, nlmp.nt_hash(pw), self.chal, self.nonce, self.key, cert=cert, restricted=ra, hash_mode=(mode == "hash"))
        self.writes = self.run.client_messages()
        self.reply1 = self.run.reply1()
        self.own_token = nlmp.session(self.key)[0].seal(credssp.pubkey(cert))     # what the client itself sealed in round 2
    def s2c(self): return nlmp.session(self.key)[1]
    def line(self, replies, cert="same"):
        c = self.cert if cert == "same" else cert
        secret = cps(self.pw) if self.mode == "pw" else nlmp.nt_hash(self.pw).hex()
        return "csspgate %s %s %s %s %s %d %s %s %s %s" % (
            self.mode, cps(self.dom), cps(self.user), secret, cps(self.user.upper()), 1 if self.ra else 0,
            "none" if c is None else credssp.cert_der(c).hex(), "none" if c is None else credssp.pubkey(c).hex(),
            (self.nonce + self.key).hex(), ",".join(hx(r) for r in replies) if replies else ".")
    def final(self, token, label, **kw):
        """a case whose last-round reply carries `token` as pubKeyAuth"""
        return (self.line([self.reply1, credssp.ts_request(pub_key_auth=token, **kw)]), ("final", label))
    def raw_final(self, reply2, label):
        return (self.line([self.reply1, reply2]), ("final", label))

def gen_cases(tier, rng):
    quick = tier == "quick"
    F = nlmp.CLIENT_FLAGS
    cfgs = [Cfg(rng, "Usér", "Dom", "pä\U0001F600w", F | nlmp.NEG_VERSION),
            Cfg(rng, "user", "WORKGROUP", "secret", F & ~nlmp.NEG_UNICODE, mode="hash", cert=1),
            Cfg(rng, "Admin", "", "x", F, ra=True),
            Cfg(rng, "日本", "域", "", F | nlmp.NEG_VERSION, mode="hash", cert=1)]
    if not quick:
        cfgs += [Cfg(rng, "u%d" % i, "D", "pw%d" % i, rng.choice([F, F | nlmp.NEG_VERSION]), mode=rng.choice(["pw", "hash"]),
                     ra=rng.random() < 0.3, cert=rng.randrange(2)) for i in range(4)]
    cases = []
    for ci, c in enumerate(cfgs):
        pk = credssp.pubkey(c.cert)
        honest = c.s2c().seal(credssp.le_add(pk, 1))
        cases.append((c.line([c.reply1, credssp.ts_request(pub_key_auth=honest)]), ("honest", [w.hex() for w in c.writes])))
        # numerically equal encodings of key + 1
        for z in (1, 2, 7):
            cases.append(c.final(c.s2c().seal(credssp.le_add(pk, 1) + b"\x00" * z), "equal+zeros"))
        # the same with so many zeros that the reply exceeds one 1500-byte link read: cut short, refused (fails safe)
        cases.append(c.final(c.s2c().seal(credssp.le_add(pk, 1) + b"\x00" * 1400), "over-1500"))
        # the peer numbers its messages from elsewhere (the client has no receive counter)
        d = nlmp.Dir(nlmp.sealkey(c.key, "server"), nlmp.signkey(c.key, "server"), 5)
        cases.append(c.final(d.seal(credssp.le_add(pk, 1)), "seq5"))
        # offsets
        ks = list(range(-2, 301)) + [1 << n for n in range(9, 2200, 97 if quick else 13)] if ci == 0 else [-1, 0, 2, 255, 256, 1 << 64]
        for k in ks:
            v = credssp.le_add(pk, k)
            if v is None: continue
            cases.append(c.final(c.s2c().seal(v), "k=%d" % k if k < 1000 else "k=2^n"))
        cases.append(c.final(c.s2c().seal(pk), "key itself"))
        cases.append(c.final(c.s2c().seal(b""), "empty"))
        cases.append(c.final(c.s2c().seal(b"\x01"), "one"))
        # other certificate (relay): proof for the key of the OTHER certificate
        cases.append(c.final(c.s2c().seal(credssp.le_add(credssp.pubkey(1 - c.cert), 1)), "other-cert"))
        # honest proof, but the client saw the other certificate
        cases.append((c.line([c.reply1, credssp.ts_request(pub_key_auth=honest)], cert=1 - c.cert), ("final", "client-saw-other-cert")))
        # wrong session key
        k2 = rbytes(rng, 16)
        cases.append(c.final(nlmp.session(k2)[1].seal(credssp.le_add(pk, 1)), "wrong-key"))
        cases.append(c.final(nlmp.session(c.key)[0].seal(credssp.le_add(pk, 1)), "client-direction-keys"))
        # reflection of the client's own pubKeyAuth
        cases.append(c.final(c.own_token, "reflection"))
        # bit flips of the token: exhaustive for the first configuration (and all in the thorough tier)
        nb = 8 * len(honest)
        bits = range(nb) if (ci == 0 or not quick) else sorted(set(list(range(0, 136)) + [rng.randrange(nb) for _ in range(40)] + [nb - 1]))
        for b in bits:
            t = bytearray(honest); t[b // 8] ^= 1 << (b % 8)
            reg = "version" if b < 32 else "checksum" if b < 96 else "seqnum" if b < 128 else "ciphertext"
            cases.append(c.final(bytes(t), "flip-" + reg))
        # multi-byte alterations of the checksum (bytes 4..11 of the token): the same mask XORed into two bytes (differences that
        # cancel in an XOR-folding comparison), all 28 byte pairs; swapped bytes; a wholly different checksum
        if ci == 0 or not quick:
            for i in range(4, 12):
                for j in range(i + 1, 12):
                    for mask in ((0x01, 0x80, 0xff) if ci == 0 else (0x5a,)):
                        t = bytearray(honest); t[i] ^= mask; t[j] ^= mask
                        cases.append(c.final(bytes(t), "flip-checksum2"))
            for i in range(4, 11):
                if honest[i] != honest[i + 1]:
                    t = bytearray(honest); t[i], t[i + 1] = t[i + 1], t[i]
                    cases.append(c.final(bytes(t), "flip-checksum2"))
        for _ in range(300 if (quick and ci == 0) else 20 if quick else 3000):
            t = bytearray(honest); t[4:12] = rbytes(rng, 8)
            if bytes(t) != honest: cases.append(c.final(bytes(t), "flip-checksum2"))
        # bit flips of the DER wrapper around it
        r2 = credssp.ts_request(pub_key_auth=honest)
        hdr = len(r2) - len(honest)
        for b in range(8 * hdr):
            t = bytearray(r2); t[b // 8] ^= 1 << (b % 8)
            cases.append(c.raw_final(bytes(t), "flip-der"))
        # truncations / extensions of the token and of the whole reply
        cuts = list(range(0, 41)) + [len(honest) // 2, len(honest) - 1] if quick or ci else range(len(honest))
        for cut in cuts:
            cases.append(c.final(honest[:cut], "trunc-token"))
        for cut in (0, 1, 2, 5, 14, len(r2) // 2, len(r2) - 1):
            cases.append(c.raw_final(r2[:cut], "trunc-reply"))
        for ext in (b"\x00", rbytes(rng, 3), rbytes(rng, 40)):
            cases.append(c.final(honest + ext, "ext-token"))
            cases.append(c.raw_final(r2 + ext, "ext-reply"))
        # DER re-encodings of the same content
        body = credssp.ctx(0, credssp.der_int(2)) + credssp.ctx(3, credssp.octets(honest))
        cases.append(c.raw_final(b"\x30\x83" + len(body).to_bytes(3, "big") + body, "der-long-length-leading-zero"))   # yasna accepts
        cases.append(c.raw_final(credssp.tlv(0x30, b"\xa0\x81\x03" + credssp.der_int(2) + credssp.ctx(3, credssp.octets(honest))), "der-nonminimal"))
        cases.append(c.raw_final(b"\x30\x80" + body + b"\x00\x00", "der-indefinite"))
        cases.append(c.raw_final(credssp.tlv(0x30, credssp.ctx(0, credssp.der_int(6)) + credssp.ctx(3, credssp.octets(honest))), "version6"))
        cases.append(c.raw_final(credssp.tlv(0x30, credssp.ctx(0, credssp.der_int(2)) + credssp.ctx(1, credssp.tlv(0x30, b"")) + credssp.ctx(3, credssp.octets(honest))), "extra-negoTokens"))
        cases.append(c.raw_final(credssp.tlv(0x30, credssp.ctx(0, credssp.der_int(2)) + credssp.ctx(3, credssp.octets(honest)) + credssp.ctx(4, credssp.der_int(0))), "extra-errorCode"))
        cases.append(c.raw_final(credssp.tlv(0x30, credssp.ctx(3, credssp.octets(honest)) + credssp.ctx(0, credssp.der_int(2))), "fields-swapped"))
        cases.append(c.raw_final(credssp.tlv(0x30, credssp.ctx(0, credssp.der_int(2)) + credssp.ctx(2, credssp.octets(honest))), "wrong-tag"))
        cases.append(c.raw_final(credssp.ts_request(), "no-pubKeyAuth"))
        cases.append(c.raw_final(credssp.ts_request(nego=c.chal), "challenge-again"))
        for _ in range(5 if quick else 60):
            cases.append(c.raw_final(rbytes(rng, rng.randrange(1, 60)), "garbage"))
        # the server says nothing / closes
        cases.append((c.line([c.reply1]), ("final", "silent")))
        cases.append((c.line([c.reply1, b""]), ("final", "empty-read")))
        # earlier rounds: nothing at all, garbage challenge, no certificate
        cases.append((c.line([]), ("early", 1)))
        cases.append((c.line([rbytes(rng, 20)]), ("early", 1)))
        cases.append((c.line([credssp.ts_request(nego=b"NTLMSSP\x00" + rbytes(rng, 30))]), ("early", 1)))
        cases.append((c.line([c.reply1, credssp.ts_request(pub_key_auth=honest)], cert=None), ("early", 1)))
    return cases

# ---------------------------------------------------------------- judgement
def _tlv(b, i):
    if i + 2 > len(b): return None
    tag, l0 = b[i], b[i + 1]; i += 2
    if l0 < 0x80: n = l0
    else:
        k = l0 & 0x7f
        if k == 0 or i + k > len(b): return None
        n = int.from_bytes(b[i:i + k], "big"); i += k
    if i + n > len(b): return None
    return tag, b[i:i + n], i + n

def find_pub_key_auth(reply):
    """lenient walk: SEQUENCE { ... [3] { OCTET STRING x } ... } -> x"""
    t = _tlv(reply, 0)
    if not t or t[0] != 0x30: return None
    body, i = t[1], 0
    while i < len(body):
        e = _tlv(body, i)
        if not e: return None
        if e[0] == 0xa3:
            o = _tlv(e[1], 0)
            return o[1] if o and o[0] == 0x04 else None
        i = e[2]
    return None

def unseal_any_seq(key, token):
    """server->client token under session key `key`, whatever its sequence number: plaintext or None"""
    if len(token) < 16 or token[:4] != b"\x01\x00\x00\x00": return None
    h = nlmp.RC4(nlmp.sealkey(key, "server"))
    pt = h.crypt(token[16:])
    ck = h.crypt(token[4:12])
    return pt if nlmp.hmac_md5(nlmp.signkey(key, "server"), token[12:16] + pt)[:8] == ck else None

def classify(line, out):
    return "cssp:" + " ".join(out.split()[:2])

def shape(line):
    t = line.split()
    reps = t[10].split(",")
    tok = find_pub_key_auth(bytes.fromhex(reps[1])) if len(reps) > 1 and reps[1] != "-" else None
    sig = hashlib.md5(reps[1].encode()).hexdigest()[:3] if len(reps) > 1 else "none"
    return (t[1], t[6], len(t[7]) // 64, len(reps), len(reps[1]) // 2 if len(reps) > 1 else 0, sig)

def nontrivial(line, out):
    return out.startswith("ok") or out.startswith("err:")

def oracle(line, out_full, expect):
    out = out_full.split(" #")[0]
    o = out.split()
    if not o or o[0] in ("panic", "crashed", "spin") or "panic" in o:
        return "cssp_connect crashed: " + out[:120]
    if len(o) < 2 or not o[1].startswith("n="): return "unparsable outcome: " + out[:120]
    res, n, writes = o[0], int(o[1][2:]), [bytes.fromhex(x) if x != "-" else b"" for x in o[2:]]
    t = line.split()
    key = bytes.fromhex(t[9])[8:24]
    replies = [] if t[10] == "." else [bytes.fromhex(x) if x != "-" else b"" for x in t[10].split(",")]
    if n > 3 or n != len(writes): return "unexpected number of writes: " + out[:120]
    if (res == "ok") != (n == 3): return "result and number of messages written disagree: " + out[:120]
    if n == 3:
        # the credentials left the client: the last reply MUST have proved the key of the certificate the client saw
        if t[7] == "none" or len(replies) < 2: return "credentials sent without a certificate / without a reply"
        pk = bytes.fromhex(t[8])
        tok = find_pub_key_auth(replies[1][:1500])
        if tok is None: return "credentials sent although the last reply carries no pubKeyAuth the reference can locate"
        pt = unseal_any_seq(key, tok)
        if pt is None: return "credentials sent although pubKeyAuth is not sealed/signed under the server-to-client session keys"
        if int.from_bytes(pt, "little") != int.from_bytes(pk, "little") + 1:
            return "credentials sent although the proved value is not public key + 1"
    else:
        if not res.startswith("err:"): return "fewer than three messages but no error: " + out[:120]
    if expect is None: return None
    if expect[0] == "honest":
        # an honest server being refused, or client messages that differ from the python reference client's, are NOT
        # violations of C01 (a safety property: credentials only after the proof; a refusal releases nothing).  Both still
        # break the model/implementation correspondence (the model's honest run is proved equal to the reference client's
        # three messages: C01_nonvacuous, C01_accepts_honest) and are reported as a broken tie.
        return None
    elif expect[0] == "final":
        lab = expect[1]
        accept = lab in ("equal+zeros", "seq5", "k=1", "version6", "der-long-length-leading-zero")
        if lab == "flip-der" or lab == "garbage": return None            # judged by the general rule above only
        if accept: return None      # refusing a numerically equal proof releases nothing: not a C01 violation (tie diff still compares)
        if not accept and n != 2: return "alteration `%s`: expected an error after exactly two messages, got %s" % (lab, out[:100])
    elif expect[0] == "early":
        if n != expect[1] or not res.startswith("err:"): return "failure before the last round: expected err and %d message(s), got %s" % (expect[1], out[:100])
    return None
from ties import of as _tie_of; TIE_LAYOUTS, TIE_PINS, TIE_ENUMS = _tie_of("C01")   # static-tie lemmas (coq/Gen/Tie) this property depends on
