"""Reference encoders for the server side of CredSSP / NTLMv2 (MS-CSSP, MS-NLMP), written from the
specifications (DESIGN.md Appendix B recipe), used by gen/c07.py to build valid messages that are
then mutated.  Nothing here looks at the implementation."""
import struct, hmac, hashlib
from common import hx

# ------------------------------------------------------------------ DER
def der_len(n):
    if n < 0x80: return bytes([n])
    out = []
    while n: out.append(n & 0xff); n >>= 8
    return bytes([0x80 | len(out)] + out[::-1])

def tlv(tag, body):
    return bytes([tag]) + der_len(len(body)) + bytes(body)

def der_int(v):
    b = []
    while True:
        b.append(v & 0xff); v >>= 8
        if v == 0: break
    if b[-1] & 0x80: b.append(0)
    return tlv(0x02, bytes(b[::-1]))

def ctx(n, body): return tlv(0xa0 | n, body)
def octets(b): return tlv(0x04, b)
def seq(*items): return tlv(0x30, b"".join(items))

def ts_request(version=2, nego=None, auth_info=None, pub_key_auth=None, error_code=None):
    """TSRequest ::= SEQUENCE { [0] version, [1] negoTokens OPT, [2] authInfo OPT, [3] pubKeyAuth OPT, [4] errorCode OPT }
    nego = list of tokens (each becomes SEQUENCE { [0] OCTET STRING })"""
    items = [ctx(0, der_int(version))]
    if nego is not None:
        items.append(ctx(1, seq(*[seq(ctx(0, octets(t))) for t in nego])))
    if auth_info is not None: items.append(ctx(2, octets(auth_info)))
    if pub_key_auth is not None: items.append(ctx(3, octets(pub_key_auth)))
    if error_code is not None: items.append(ctx(4, der_int(error_code)))
    return seq(*items)

# a TSRequest as a tree (tag, children | bytes), so that ONE node's length octets can be replaced
# while the enclosing lengths stay consistent with the bytes actually present
def ts_tree(nego=None, pub_key_auth=None, version=2):
    kids = [(0xa0, [(0x02, bytes([version]))])]
    if nego is not None:
        kids.append((0xa1, [(0x30, [(0x30, [(0xa0, [(0x04, bytes(t))])]) for t in nego])]))
    if pub_key_auth is not None:
        kids.append((0xa3, [(0x04, bytes(pub_key_auth))]))
    return (0x30, kids)

def tree_nodes(t, path=()):
    yield path
    if isinstance(t[1], list):
        for i, k in enumerate(t[1]):
            for q in tree_nodes(k, path + (i,)): yield q

def tree_enc(t, fault_path=None, fault_len=None, path=()):
    body = b"".join(tree_enc(k, fault_path, fault_len, path + (i,)) for i, k in enumerate(t[1])) if isinstance(t[1], list) else t[1]
    l = fault_len if (fault_path is not None and path == fault_path) else der_len(len(body))
    return bytes([t[0]]) + l + body

# ------------------------------------------------------------------ NTLM CHALLENGE
FLAGS_DEFAULT = 0xe28a8235      # incl. NEGOTIATE_VERSION (0x02000000), TARGET_INFO, UNICODE
NEG_VERSION = 0x02000000
VERSION = bytes([6, 0, 0x72, 0x17, 0, 0, 0, 0x0f])

def av(i, v): return struct.pack("<HH", i, len(v)) + bytes(v)
def u16s(s): return s.encode("utf-16-le")

def target_info(timestamp=True, eol=True, extra=()):
    p = av(2, u16s("DOM")) + av(1, u16s("SRV")) + av(4, u16s("dom.local")) + av(3, u16s("srv.dom.local"))
    if timestamp: p += av(7, bytes([0x10, 0x32, 0x54, 0x76, 0x98, 0xba, 0xdc, 0x01]))
    for (i, v) in extra: p += av(i, v)
    if eol: p += av(0, b"")
    return p

def challenge(flags=FLAGS_DEFAULT, ti=None, target_name=b"", chal=bytes(range(1, 9)),
              ti_len=None, ti_max=None, ti_off=None, tn_len=None, tn_off=None, sig=b"NTLMSSP\0", mtype=2, tail=b""):
    """CHALLENGE_MESSAGE; every length/offset can be overridden (None = the correct value)"""
    if ti is None: ti = target_info()
    hdr = 48 + (8 if flags & NEG_VERSION else 0)
    payload = bytes(target_name) + bytes(ti) + bytes(tail)
    tnl = len(target_name) if tn_len is None else tn_len
    tno = hdr if tn_off is None else tn_off
    til = len(ti) if ti_len is None else ti_len
    tim = til if ti_max is None else ti_max
    tio = hdr + len(target_name) if ti_off is None else ti_off
    m = sig + struct.pack("<I", mtype) + struct.pack("<HHI", tnl, tnl, tno) + struct.pack("<I", flags) + bytes(chal) + bytes(8)
    m += struct.pack("<HHI", til, tim, tio)
    if flags & NEG_VERSION: m += VERSION
    return m + payload

def chal_layout(flags=FLAGS_DEFAULT):
    """(name, offset, width) of the fields of the fixed header"""
    f = [("Signature", 0, 8), ("MessageType", 8, 4), ("TargetNameLen", 12, 2), ("TargetNameLenMax", 14, 2), ("TargetNameBufferOffset", 16, 4),
         ("NegotiateFlags", 20, 4), ("ServerChallenge", 24, 8), ("Reserved", 32, 8), ("TargetInfoLen", 40, 2), ("TargetInfoMaxLen", 42, 2),
         ("TargetInfoBufferOffset", 44, 4)]
    if flags & NEG_VERSION: f.append(("Version", 48, 8))
    return f

# ------------------------------------------------------------------ NTLMv2 session security (server -> client)
def rc4_stream(key):
    s = list(range(256)); j = 0
    for i in range(256):
        j = (j + s[i] + key[i % len(key)]) & 255; s[i], s[j] = s[j], s[i]
    i = j = 0
    while True:
        i = (i + 1) & 255; j = (j + s[i]) & 255; s[i], s[j] = s[j], s[i]
        yield s[(s[i] + s[j]) & 255]

def seal(seal_key, sign_key, seq, plain):
    """MS-NLMP 3.4.4.2 with extended session security and key exchange: one RC4 stream, message first, then the checksum"""
    ks = rc4_stream(seal_key)
    enc = bytes(b ^ next(ks) for b in plain)
    mac = hmac.new(sign_key, struct.pack("<I", seq) + bytes(plain), hashlib.md5).digest()[:8]
    emac = bytes(b ^ next(ks) for b in mac)
    return struct.pack("<I", 1) + emac + struct.pack("<I", seq) + enc

# keys of the harness's fixed security interface (harness/src/nla.rs op_unwrap)
SERVER_SEAL = b"server-seal"
SERVER_SIGN = b"server-sign-key!"
