"""C02: negotiated transport security is honoured; no downgrade.
Every offered mask x every kind of negotiation reply x every selected protocol x certificate checking x
trusted / untrusted / absent TLS server, against the real client over an in-memory duplex whose server side
can upgrade to TLS.  Judged (independently of the model): the client goes on only with a protocol it
offered; no credential-bearing message leaves before TLS is up; with certificate checking an untrusted
certificate ends the connection before any such message."""
import re, struct
from common import *
from rdp import *
from rdpconn import *

GROUP = "connect"
MODEL_FILES = ["coq/Connect.v", "coq/ConnectRun.v", "coq/LayoutsConnect.v", "coq/Msg.v", "coq/BerYasna.v", "coq/Tpkt.v", "coq/Link.v"]
PROFILES = ["debug", "release"]
RULE = ("offered masks: what the public Connector can offer (SSL; SSL|HYBRID with NLA on; each with and without restricted admin) "
        "through Connector::connect, and 0, 1, 2, 3, 8, 11 through x224::Client::connect with and without an authenticator; reply "
        "kinds: negotiation response, failure, echoed request, unknown type (all 256 type bytes), absent (connection confirm "
        "without negotiation data, no reply at all, truncated reply), wrong length field; selectedProtocol: all 256 low-byte "
        "values, every single bit, boundary patterns above the low byte; all 256 flag bytes (thorough; quick: boundary set); "
        "check_certificate on/off x TLS server with the trusted fixture certificate / an untrusted one / no TLS server; the "
        "rest of a valid conversation follows (in clear or inside TLS) so that a client that goes on reaches the Client Info "
        "PDU or the first CredSSP token.  Observed: the client's frames on the raw transport, whether a ClientHello followed, "
        "the handshake result on the server side, the units the client sent inside TLS, the result.  Non-trivial = distinct "
        "(api, offered, outcome, handshake) classes.")
TRUSTED_BASE = ["Coq 8.16.1 kernel", "hand-written model coq/Connect.v (x224_connect with the transport event trace) tied to /repo by this correspondence run",
                "extraction + ocaml/connect/driver.ml", "Rust harness/src/negotiate.rs (threaded in-memory duplex, native-tls acceptor with the fixture identities, SSL_CERT_FILE = fixture 0)",
                "gen/rdpconn.py reference encoders; the reference reading of RDP_NEG_RSP in this file",
                "external, modelled as oracles: native-tls / OpenSSL (handshake succeeds iff a TLS server is there and (not check_certificate or the certificate is trusted)), CredSSP (C01/C07)"]
ASSUMPTIONS = ["TLS itself (confidentiality of what is written inside the established session, certificate path validation) is OpenSSL's: the model has a handshake oracle `tls_handshake check trusted = not check or trusted`",
               "x224::Client::connect called with offered = 0 (plain RDP security requested explicitly, not reachable through Connector) sends the Client Info in clear by design: the no-credential-before-TLS theorem and oracle apply to offered != 0"]

V8 = [0, 1, 2, 3, 4, 7, 8, 9, 0x0b, 0x0f, 0x10, 0x7f, 0x80, 0x81, 0xfe, 0xff]
HIGH = [1 << k for k in range(8, 32)] + [0x100 | 1, 0x100 | 2, 0x10000 | 1, 0x80000000 | 2, 0xffffff00, 0xffffff01, 0xffffff02, 0x7fffffff, 0xfffffffe, 0xffffffff,
                                          0x01000000, 0x02000000, 0x00000300, 0x0000000b | 0x100]

CONFIGS = [("connector", 1, 1, 0), ("connector", 1, 1, 1), ("connector", 3, 1, 0), ("connector", 3, 1, 1)] + \
          [("x224", off, auth, 0) for off in (0, 1, 2, 3, 8, 11) for auth in (0, 1)]

def post_frames(sel, order="g"):
    return conversation(selected=sel if sel < 2 ** 32 else 0, order=order)[1:]

def gen_cases(tier, rng):
    quick = tier == "quick"
    cases = []
    def add(reply, tag, sel=1, **kw):
        cases.append((neg_case(reply, post_frames(sel), **kw), ("c02", tag)))
    for (api, off, auth, ram) in CONFIGS:
        kw = dict(api=api, offered=off, auth=auth, ram=ram, dom=b"dom", user=b"user", pw=b"password")
        # every selected protocol in a well-formed response
        sels = list(range(256)) + HIGH
        for sel in sels:
            full = sel in (0, 1, 2, 3, 8, 9, 0x0b, 0x101, 0x102, 0xffffffff)
            for check in (0, 1):
                for ident in ("0", "1", "n"):
                    if not full and (quick or (check, ident) not in ((0, "0"), (1, "1"))) and (check, ident) != (0, "0"): continue
                    add(cc_frame(sel), "rsp", sel, check=check, ident=ident, **kw)
        for order in "gu":
            add(cc_frame(1), "rsp:order", 1, order=order, **kw)
        # reply kinds
        for typ in (range(256) if not quick else V8):
            for sel in (0, 1, 2):
                add(cc_frame(sel, typ=typ), "type", sel, **kw)
        for fl in (range(256) if not quick else V8):
            for sel in (0, 1, 2):
                add(cc_frame(sel, flags=fl), "flags", sel, **kw)
        for ln in (0, 4, 7, 9, 12, 0x0800, 0xffff):
            for sel in (0, 1, 2):
                add(cc_frame(sel, length=ln), "length", sel, **kw)
        for check in (0, 1):
            for ident in ("0", "1"):
                add(None, "absent:silent", check=check, ident=ident, **kw)
                add(tpkt(bytes([6, 0xd0, 0, 0, 0, 0, 0])), "absent:no-negdata", check=check, ident=ident, **kw)
                full = cc_frame(1)
                for cut in range(0, len(full)):
                    if quick and cut % 3: continue
                    add(full[:cut], "absent:truncated", check=check, ident=ident, **kw)
                add(bytes([0, 17]) + cc_frame(1)[4:], "absent:fastpath", check=check, ident=ident, **kw)
        # x224 header bytes of the confirm do not matter to the selection
        for (li, code) in ((0, 0xd0), (14, 0xe0), (14, 0xf0), (255, 0)):
            for sel in (0, 1, 2):
                add(tpkt(x224_cc(neg_rsp(sel), li=li, code=code)), "x224hdr", sel, **kw)
        # seeded random replies
        for _ in range(30 if quick else 600):
            b = bytearray(cc_frame(rng.choice((0, 1, 2, 8))))
            for _ in range(rng.randrange(1, 4)):
                b[rng.randrange(4, len(b))] = rng.randrange(256)
            add(bytes(b), "rand", rng.choice((0, 1)), check=rng.choice((0, 1)), ident=rng.choice(("0", "1", "n")), **kw)
    return cases

# ------------------------------------------------------------------ independent judgement
def ref_selected(reply):
    """MS-RDPBCGR 2.2.1.2 read positionally: the protocol an RDP_NEG_RSP selects, or None when the reply carries no response"""
    if reply is None or len(reply) < 19 or reply[0] != 3: return None
    neg = reply[11:19]
    if neg[0] != 2: return None                      # TYPE_RDP_NEG_RSP
    return struct.unpack("<I", neg[4:8])[0]

def parse_line(line):
    t = line.split()
    reply = None if t[12] == "-" else bytes.fromhex(t[12])
    return dict(api=t[1], offered=int(t[2]), auth=t[3] == "1", check=t[5] == "1", ident=t[6], reply=reply)

def parse_out(out):
    m = re.match(r"(\S+) w=(\S+) hs=(\S+) in=(\S+)", out)
    if not m: return None
    res, w, hs, inside = m.groups()
    return res, ([] if w == "-" else w.split(",")), hs, ([] if inside == "-" else inside.split(","))

def is_cred(tag): return tag.startswith("info:") or tag == "cssp"

def oracle(line, out, expect):
    c = parse_line(line)
    o = parse_out(out.split(" #")[0])
    if o is None: return "unreadable outcome " + out[:80]
    res, raw, hs, inside = o
    if res in ("panic", "spin", "crashed"): return "the connection attempt ended in " + res
    went_on = res == "ok" or any(t != "tls" and not t.startswith("cr:") for t in raw) or "tls" in raw or inside
    sel = ref_selected(c["reply"])
    if went_on:
        if sel is None: return "the client went on although the server's reply selects no protocol"
        if sel == 0 and c["offered"] != 0: return "downgrade: the client went on with plain RDP security although it offered %#x" % c["offered"]
        if sel != 0 and (sel & c["offered"]) == 0: return "the client went on with protocol %#x which it did not offer (%#x)" % (sel, c["offered"])
    if c["offered"] != 0:
        for t in raw:
            if is_cred(t): return "credential-bearing message %s written on the raw transport (no TLS)" % t
    if inside and hs != "ok": return "units accepted as TLS application data without a completed handshake"
    if c["check"] and c["ident"] != "0" and c["offered"] != 0:
        if res == "ok": return "connected although certificate checking is on and the server certificate is not trusted"
        if any(is_cred(t) for t in raw + inside): return "credential-bearing message sent although the certificate check must have failed"
    return None

def classify(line, out):
    o = parse_out(out.split(" #")[0])
    if o is None: return out.split(" ")[0]
    return "%s/hs=%s" % (o[0], o[2])

def shape(line):
    t = line.split()
    return "%s:%s:%s" % (t[1], t[2], t[3])

def nontrivial(line, out):
    return True
from ties import of as _tie_of; TIE_LAYOUTS, TIE_PINS, TIE_ENUMS = _tie_of("C02")   # static-tie lemmas (coq/Gen/Tie) this property depends on
