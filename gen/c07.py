"""C07: hostile server bytes during NLA (CredSSP / NTLMv2) never crash the client.
Valid TSRequest / CHALLENGE / sealed tokens from the reference encoders of gen/nla.py, then every field fault,
truncation, extension, short string and seeded corruption at each parser entry of the real crate:
read_ts_server_challenge, read_ts_validate, Ntlm::read_challenge_message, gss_unwrapex, cssp_connect.
Judged: no panic / abort / spin, largest single allocation within a bound proportional to the bytes received."""
import struct
from common import hx, fill
from nla import *

GROUP = "nla"
MODEL_FILES = ["coq/Msg.v", "coq/LayoutsNtlm.v", "coq/Cssp.v", "coq/DerRead.v", "coq/Link.v", "coq/CsspGate.v", "coq/CsspGateExec.v"]
PROFILES = ["debug", "release"]
RULE = ("per parser entry (tsreq = read_ts_server_challenge, tsval = read_ts_validate, chal = Ntlm::read_challenge_message, "
        "unwrap = gss_unwrapex, cssp = cssp_connect over an in-memory link): a valid message from the python reference encoder, "
        "then every 16-bit length and 32-bit offset of the CHALLENGE at {0, hdr-1, hdr, hdr+1, fit-1, fit, fit+1, len-1, len, len+1, "
        "0x7fff, 0x8000, 0xffff, 0x7fffffff, 0x80000000, 0xffffffff}, every AV-pair id 0..11 and unknown ids, AvLen faults, missing / "
        "duplicate / mis-sized timestamp, missing EOL, every flag bit, every byte position at a boundary set, every truncation, "
        "extensions; TSRequest with empty / absent / several negoTokens, absent / extra optional fields, every DER tag and length "
        "octet at {0,1,0x7f,0x80,0x81,0x82,0x84,0x88,0xff,..}, non-minimal and indefinite lengths, 32/64-bit lengths; sealed tokens "
        "valid / bit-flipped / truncated / extended; all byte strings of length <= 2 (quick) / <= 3 over a boundary set (thorough) at "
        "each entry; seeded random corruption; client credentials empty / ASCII / non-BMP / long; validly SEALED hostile pubKeyAuth plaintexts "
        "(a server that knows the session key: empty, 1..17 bytes, key length -1/0/+1, 1000..3000 bytes, every truncation of the token up to 32 bytes) "
        "through the whole cssp_connect with a preset certificate (op csspgate, C01's harness and model).  Non-trivial = anything that is not "
        "an immediate EOF on a string shorter than 4 bytes.")
TRUSTED_BASE = ["Coq 8.16.1 kernel (vm_compute for the per-layout `safe` obligations and the non-vacuity instance)",
                "hand-written models coq/Msg.v, coq/LayoutsNtlm.v, coq/Cssp.v tied to /repo by this correspondence run",
                "yasna (DER reader), x509-parser, native-tls, md4/md-5/hmac crates and nla/rc4.rs: modelled as total functions "
                "(Section variables); yasna's behaviour on the TSRequest shape is sampled against the executable Gallina DER reader",
                "extraction + ocaml/nla/driver.ml (stand-in hash/cipher functions; only outcome class, lengths and non-crypto bytes are compared)",
                "Rust harness/src/nla.rs + counting allocator (harness/src/alloc.rs)"]
ASSUMPTIONS = ["Ntlm::read_challenge_message is called after create_negotiate_message (cssp_connect always does); calling it first is "
               "client API misuse (an unwrap on None), outside the property's quantifier and reported as such",
               "memory 'out of proportion' is made precise as: no single allocation request above 2*max(65536, 4*(bytes received + "
               "credential bytes) + 1024) + 4096 bytes (wire-sized buffers come from 16-bit fields; Vec growth doubles)",
               "the peer certificate handed over by the TLS layer parses (x509-parser unwrap in read_public_certificate is outside C07's inputs)",
               "client credentials shorter than 2^31 bytes (the u32 offset arithmetic of authenticate_message is client-side, not server-controlled)"]

VB = [0, 1, 2, 3, 4, 5, 6, 7, 8, 0x10, 0x2f, 0x30, 0x38, 0x7e, 0x7f, 0x80, 0x81, 0x82, 0x83, 0x84, 0x88, 0xa0, 0xa1, 0xa3, 0xfe, 0xff]
DOM, USER, PW = b"dom", b"user", b"pw"

def creds(d=DOM, u=USER, p=PW): return "%s %s %s" % (hx(d), hx(u), hx(p))

def bounds(hdr, plen, flen, cur):
    """boundary values for a length / offset field: header size, payload size, value that exactly fits"""
    s = {0, 1, hdr - 1, hdr, hdr + 1, plen - 1, plen, plen + 1, hdr + plen - 1, hdr + plen, hdr + plen + 1,
         hdr + plen - flen - 1, hdr + plen - flen, hdr + plen - flen + 1, cur - 1, cur + 1, flen - 1, flen, flen + 1,
         0x7f, 0x80, 0xff, 0x100, 0x7fff, 0x8000, 0xfffe, 0xffff, 0x10000, 0x7fffffff, 0x80000000, 0xfffffffe, 0xffffffff}
    return sorted(v for v in s if v >= 0)

def chal_cases(quick, rng):
    out = []
    def add(b, tag, neg=1, cr=None):
        out.append(("chal %d %s %s" % (neg, cr or creds(), hx(b)), ("chal", tag)))
    variants = [("v", dict()), ("nov", dict(flags=FLAGS_DEFAULT & ~NEG_VERSION)), ("tn", dict(target_name=u16s("TARGET"))),
                ("oem", dict(flags=FLAGS_DEFAULT & ~1)), ("tail", dict(tail=b"\x01\x02\x03"))]
    for (vn, kw) in variants:
        add(challenge(**kw), vn + ":valid")
    # client credentials
    for (d, u, p) in [(b"", b"", b""), ("dé".encode(), "üser\U0001f600".encode(), "p中".encode()), (b"D" * 300, b"u" * 1000, b"p" * 70000)]:
        add(challenge(), "creds", cr=creds(d, u, p))
        add(challenge(flags=FLAGS_DEFAULT & ~1), "creds", cr=creds(d, u, p))
    # API misuse: no negotiate message created before
    add(challenge(), "misuse", neg=0)
    add(challenge(ti_off=3), "misuse", neg=0)
    # every length / offset field at its boundaries
    for (vn, kw) in variants[:3]:
        flags = kw.get("flags", FLAGS_DEFAULT)
        hdr = 48 + (8 if flags & NEG_VERSION else 0)
        tn = kw.get("target_name", b""); ti = target_info()
        plen = len(tn) + len(ti)
        for (field, width, flen, cur) in [("tn_len", 16, len(tn), len(tn)), ("tn_off", 32, len(tn), hdr), ("ti_len", 16, len(ti), len(ti)),
                                           ("ti_max", 16, len(ti), len(ti)), ("ti_off", 32, len(ti), hdr + len(tn))]:
            for v in bounds(hdr, plen, flen, cur):
                if v >= 1 << width: continue
                k = dict(kw); k[field] = v
                add(challenge(**k), vn + ":" + field)
        # pairs: length and offset together
        for lv in (0, 1, len(ti), len(ti) + 1, 0xffff):
            for ov in (0, hdr - 1, hdr, hdr + plen - lv, hdr + plen - lv + 1, hdr + plen, hdr + plen + 1, 0xffffffff):
                if ov < 0: continue
                k = dict(kw); k["ti_len"] = lv; k["ti_off"] = ov
                add(challenge(**k), vn + ":ti_pair")
    # AV pairs
    for i in list(range(0, 13)) + [0xff, 0x100, 0x7fff, 0x8000, 0xffff]:
        for v in (b"", b"\x00", b"abcd", bytes(8)):
            add(challenge(ti=target_info(extra=[(i, v)])), "av:id")
            add(challenge(ti=target_info(timestamp=False, extra=[(i, v)])), "av:id-nots")
    add(challenge(ti=target_info(timestamp=False)), "av:nots")
    add(challenge(ti=target_info(eol=False)), "av:noeol")
    add(challenge(ti=target_info(timestamp=False, eol=False)), "av:nots-noeol")
    add(challenge(ti=b""), "av:empty")
    add(challenge(ti=av(0, b"")), "av:eol-only")
    add(challenge(ti=av(0, b"xx") + av(7, bytes(8)) + av(0, b"")), "av:eol-with-value")
    add(challenge(ti=av(7, bytes(8)) + av(7, bytes(range(8))) + av(0, b"")), "av:dup-ts")
    for n in (0, 1, 7, 9, 16, 300):
        add(challenge(ti=av(7, bytes(n)) + av(0, b"")), "av:ts-len")
    base_ti = target_info()
    # AvLen faults on every pair of the valid target info (the bytes stay, the declared length changes)
    pos = 0
    while pos + 4 <= len(base_ti):
        (aid, alen) = struct.unpack("<HH", base_ti[pos:pos + 4])
        rem = len(base_ti) - pos - 4
        for v in sorted({0, 1, alen - 1, alen + 1, rem - 1, rem, rem + 1, 0x7fff, 0x8000, 0xfffe, 0xffff}):
            if v < 0 or v > 0xffff: continue
            t = base_ti[:pos + 2] + struct.pack("<H", v) + base_ti[pos + 4:]
            add(challenge(ti=t), "av:len")
        for v in (0, 7, 11, 0xffff):
            t = base_ti[:pos] + struct.pack("<H", v) + base_ti[pos + 2:]
            add(challenge(ti=t), "av:idfault")
        pos += 4 + alen
    # large target info
    for n in (0xffff - 4, 0xffff - 3, 0xfff0):
        big = av(2, bytes(n - 16)) + av(7, bytes(8)) + av(0, b"")
        add(challenge(ti=big[:0xffff]), "av:big")
    add(challenge(ti=av(7, bytes(8)) + av(1, fill(40000, 1)) + av(0, b"")), "av:big")
    # large target info TOGETHER with a timestamp that is not 8 bytes: the NT response is 36 + |timestamp| + |target info| bytes
    # (the timestamp value is echoed AND counted inside the target info), around the 16-bit limit of its length field
    for ts in (0, 7, 9, 100, 1000, 30000):
        for want in (65534, 65535, 65536, 65537, 65535 + ts, 65535 + ts - 8):
            for base in ("nt", "guard8"):
                # nt: 36 + ts + TI = want ; guard8: TI + 44 = want (the size an 8-byte timestamp would give)
                ti_len = (want - 36 - ts) if base == "nt" else (want - 44)
                f = ti_len - (4 + ts) - 4 - 4
                if f < 0 or ti_len > 0xffff: continue
                add(challenge(ti=av(7, bytes(ts)) + av(2, fill(f, ts % 251)) + av(0, b"")), "av:big-ts")
    add(challenge(ti=av(7, bytes(8)) + av(0, b""), target_name=fill(70000, 2), tn_len=0xffff), "tn:big")
    # flags
    for b in range(32):
        add(challenge(flags=FLAGS_DEFAULT ^ (1 << b)), "flags:bit")
    for f in (0, 0xffffffff, NEG_VERSION, 1):
        add(challenge(flags=f), "flags")
    # signature / type
    add(challenge(sig=b"NTLMSSP\x01"), "sig"); add(challenge(sig=b"ntlmssp\0"), "sig")
    for t in (0, 1, 3, 0x102, 0xffffffff): add(challenge(mtype=t), "mtype")
    # every byte position at boundary values; truncations; extensions
    for (vn, kw) in variants[:2]:
        body = challenge(**kw)
        for i in range(len(body)):
            vals = VB if (i < 56 or not quick) else [0, 0xff, body[i] ^ 1]
            if not quick and i < 56: vals = range(256)
            for v in vals:
                if v != body[i]: add(body[:i] + bytes([v]) + body[i + 1:], vn + ":byte")
        for cut in range(len(body)): add(body[:cut], vn + ":trunc")
        for ext in (b"\x00", b"\xff" * 7, av(7, bytes(8)), fill(300, 3), body): add(body + ext, vn + ":ext")
        for _ in range(300 if quick else 20000):
            b = bytearray(body)
            for _ in range(rng.randrange(1, 5)): b[rng.randrange(len(b))] = rng.randrange(256)
            add(bytes(b), vn + ":rand")
        if not quick:
            for _ in range(20000):
                b = bytearray(body)
                for _ in range(2):
                    i = rng.randrange(12, 47); b[i:i + 2] = struct.pack("<H", rng.choice([0, 1, 47, 48, 55, 56, 57, 0x58, 0x90, 0xff, 0x7fff, 0x8000, 0xffff]))
                add(bytes(b), vn + ":pair")
    return out

def huge_lens(n):
    """long-form lengths around the point where yasna's `pos + length` leaves usize (n = size of the message)"""
    vals = [(1 << 64) - 1, (1 << 64) - 2, (1 << 64) - n, (1 << 64) - n - 1, (1 << 64) - 2 * n, (1 << 64) - 4096, (1 << 63), (1 << 63) - 1, (1 << 32), (1 << 32) - 1, 1 << 31]
    return [bytes([0x88]) + v.to_bytes(8, "big") for v in vals] + [bytes([0x89, 0]) + ((1 << 64) - 1).to_bytes(8, "big"), bytes([0x89, 1]) + bytes(8)]

def der_cases(op, valid_items, quick, rng, tree=None):
    """valid_items: [(tag, bytes)] of valid / structurally varied TSRequests for this entry"""
    out = []
    def add(b, tag): out.append(("%s %s" % (op, hx(b)), (op, tag)))
    for (tag, b) in valid_items: add(b, tag)
    small = valid_items[0][1]
    if tree is not None:
        assert tree_enc(tree) == small
        for path in tree_nodes(tree):
            for lf in LEN_FAULTS_NESTED + huge_lens(len(small)):
                add(tree_enc(tree, path, lf), "nestedlen")
    LEN_FAULTS = [b"\x00", b"\x01", b"\x7f", b"\x80", b"\x81\x00", b"\x81\x05", b"\x81\x7f", b"\x81\x80", b"\x81\xff", b"\x82\x00\x05", b"\x82\x01\x00",
                  b"\x82\xff\xff", b"\x83\x00\x00\x05", b"\x84\x00\x00\x00\x05", b"\x84\x7f\xff\xff\xff", b"\x84\x80\x00\x00\x00", b"\x84\xff\xff\xff\xff",
                  b"\x88\x00\x00\x00\x00\x00\x00\x00\x05", b"\x88\x7f\xff\xff\xff\xff\xff\xff\xff", b"\x88\xff\xff\xff\xff\xff\xff\xff\xff",
                  b"\x89\x01\x00\x00\x00\x00\x00\x00\x00\x00", b"\xff"]
    for i in range(len(small)):
        for v in (VB if quick else range(256)):
            if v != small[i]: add(small[:i] + bytes([v]) + small[i + 1:], "byte")
        for lf in LEN_FAULTS:
            add(small[:i] + lf + small[i + 1:], "lenfault")
        add(small[:i] + small[i + 1:], "del")
        add(small[:i] + b"\x00" + small[i:], "ins")
    for cut in range(len(small)): add(small[:cut], "trunc")
    for ext in (b"\x00", b"\x00\x00", b"\x30\x00", small, fill(200, 5)): add(small + ext, "ext")
    for (tag, b) in valid_items[1:]:
        step = 1 if len(b) < 80 else max(1, len(b) // 40)
        for cut in range(0, len(b), step): add(b[:cut], "trunc2")
        for _ in range(40 if quick else 2000):
            x = bytearray(b)
            for _ in range(rng.randrange(1, 4)): x[rng.randrange(min(len(x), 40))] = rng.choice(VB)
            add(bytes(x), "rand")
    return out

LEN_FAULTS_NESTED = [b"\x00", b"\x01", b"\x7f", b"\x80", b"\x81\x03", b"\x81\x80", b"\x82\x00\x03", b"\x84\xff\xff\xff\xff", b"\x88" + bytes(7) + b"\x03", b"\xff"]

def tsreq_items():
    c = challenge()
    def intb(body): return tlv(0x02, body)
    items = [("valid", ts_request(nego=[b"\x01\x02\x03"])),
             ("valid:chal", ts_request(nego=[c])),
             ("empty-list", ts_request(nego=[])), ("absent", ts_request()), ("two", ts_request(nego=[b"abc", b"defg"])),
             ("many", ts_request(nego=[bytes([i]) for i in range(50)])),
             ("empty-token", ts_request(nego=[b""])), ("long-token", ts_request(nego=[fill(300, 1)])), ("long-token", ts_request(nego=[fill(70000, 1)])),
             ("extra:authinfo", ts_request(nego=[b"a"], auth_info=b"zz")), ("extra:pubkey", ts_request(nego=[b"a"], pub_key_auth=b"zz")),
             ("extra:error", ts_request(nego=[b"a"], error_code=5)), ("only:pubkey", ts_request(pub_key_auth=b"zz")),
             ("order", seq(ctx(1, seq(seq(ctx(0, octets(b"a"))))), ctx(0, der_int(2)))),
             ("empty-seq", seq()), ("inner-empty", seq(ctx(0, der_int(2)), ctx(1, seq(seq())))),
             ("inner-extra", seq(ctx(0, der_int(2)), ctx(1, seq(seq(ctx(0, octets(b"a")), ctx(1, octets(b"b"))))))),
             ("constructed-octets", seq(ctx(0, der_int(2)), ctx(1, seq(seq(ctx(0, tlv(0x24, octets(b"ab") + octets(b"cd")))))))),
             ("set-not-seq", tlv(0x31, ctx(0, der_int(2)) + ctx(1, seq(seq(ctx(0, octets(b"a"))))))),
             ("high-tag", tlv(0x30, bytes([0xbf, 0x00, 0x03]) + der_int(2) + ctx(1, seq(seq(ctx(0, octets(b"a"))))))),
             ("high-tag2", bytes([0x1f, 0x81, 0x00, 0x00])), ("high-tag3", bytes([0x3f, 0x10, 0x00])), ("high-tag4", bytes([0xbf, 0xff, 0xff, 0xff, 0xff, 0xff, 0xff, 0xff, 0xff, 0xff, 0x7f, 0x00]))]
    for v in (0, 1, 2, 3, 6, 0x7f, 0x80, 0xff, 0x7fffffff, 0x80000000, 0xffffffff, 0x100000000, 1 << 63, 1 << 64):
        items.append(("version", ts_request(version=v, nego=[b"a"])))
    for body in (b"", b"\xff", b"\x80", b"\x00\x01", b"\x00\x80", b"\xff\xff", b"\x00\xff\xff\xff\xff", b"\x01\x00\x00\x00\x00", b"\x00" * 9):
        items.append(("version-raw", seq(ctx(0, intb(body)), ctx(1, seq(seq(ctx(0, octets(b"a"))))))))
    return items

def tsval_items():
    items = [("valid", ts_request(pub_key_auth=b"\x01\x02\x03")), ("valid:sealed", ts_request(pub_key_auth=seal(SERVER_SEAL, SERVER_SIGN, 0, fill(270, 9)))),
             ("absent", ts_request()), ("empty", ts_request(pub_key_auth=b"")), ("with-nego", ts_request(nego=[b"a"], pub_key_auth=b"zz")),
             ("authinfo", ts_request(auth_info=b"zz")), ("error", ts_request(pub_key_auth=b"zz", error_code=1)), ("error-only", ts_request(version=6, error_code=0xc000006d)),
             ("long", ts_request(pub_key_auth=fill(70000, 2))), ("empty-seq", seq()),
             ("constructed-octets", seq(ctx(0, der_int(2)), ctx(3, tlv(0x24, octets(b"ab") + octets(b"cd")))))]
    for v in (0, 2, 0xffffffff, 0x100000000):
        items.append(("version", ts_request(version=v, pub_key_auth=b"a")))
    return items

def shorts(op, quick, rng, prefix=""):
    out = []
    def add(b): out.append(("%s %s%s" % (op, prefix, hx(b)), (op, "short")))
    add(b"")
    for a in range(256): add(bytes([a]))
    for a in range(256):
        for b in range(256): add(bytes([a, b]))
    if not quick:
        for a in range(256):
            for b in range(256):
                for c in VB: add(bytes([a, b, c]))
    return out

def unwrap_cases(quick, rng):
    out = []
    def add(b, hint, tag): out.append(("unwrap %s %d" % (hx(b), hint), ("unwrap", tag)))
    for (n, sq) in [(0, 0), (1, 0), (11, 0), (270, 0), (270, 1), (3000, 7)]:
        tok = seal(SERVER_SEAL, SERVER_SIGN, sq, fill(n, n))
        add(tok, 1, "valid")
        for cut in range(min(len(tok), 40)): add(tok[:cut], 0, "trunc")
        if n: add(tok[:-1], 0, "trunc")
        add(tok + b"\x00", 0, "ext")
        for i in range(len(tok) if n <= 11 else 24):
            for v in (tok[i] ^ 1, tok[i] ^ 0x80, 0, 0xff):
                if v != tok[i]: add(tok[:i] + bytes([v]) + tok[i + 1:], 0, "flip")
    for v in (0, 2, 0x100, 0x01000000, 0xffffffff):
        add(struct.pack("<I", v) + bytes(12) + b"abc", 0, "version")
    for n in (15, 16, 17, 100): add(bytes(n), 0, "zeros"); add(b"\x01\0\0\0" + bytes(n), 0, "zeros")
    for _ in range(200 if quick else 20000):
        add(b"\x01\0\0\0" + bytes(rng.randrange(256) for _ in range(rng.randrange(0, 40))), 0, "rand")
    return out

def cssp_cases(quick, rng):
    out = []
    def add(chunks, tag, restricted=0, cr=None):
        cs = ",".join(hx(c) if len(c) else "-" for c in chunks) if chunks else "."
        out.append(("csspnla %d %s %s" % (restricted, cr or creds(), cs), ("cssp", tag)))
    c = challenge()
    good = ts_request(nego=[c])
    add([good], "valid"); add([good], "valid", restricted=1); add([good, ts_request(pub_key_auth=b"zz")], "valid2")
    add([], "silent"); add([b""], "eof"); add([good[:20], good[20:]], "split"); add([good + good], "double")
    add([ts_request(nego=[])], "empty-list"); add([ts_request()], "absent"); add([ts_request(nego=[b""])], "empty-token")
    add([ts_request(nego=[challenge(ti=target_info(timestamp=False))])], "nots")
    add([ts_request(nego=[challenge(ti_off=3)])], "off"); add([ts_request(nego=[challenge(ti_len=0xffff)])], "len")
    add([fill(1499, 1)], "mtu"); add([fill(1500, 1)], "mtu"); add([fill(1501, 1)], "mtu"); add([fill(5000, 1)], "mtu")
    big = ts_request(nego=[challenge(ti=av(7, bytes(8)) + av(1, fill(1300, 1)) + av(0, b""))])
    add([big], "big"); add([big[:1500]], "big"); add([ts_request(nego=[challenge(tail=fill(1400, 3))])], "big")
    for cut in range(0, len(good), 3 if quick else 1): add([good[:cut]], "trunc")
    for (line, (_, tag)) in chal_cases(True, rng)[::(7 if quick else 1)]:
        tok = bytes.fromhex(line.split()[5]) if line.split()[5] != "-" else b""
        if len(tok) < 1300 and line.split()[1] == "1": add([ts_request(nego=[tok])], "chal:" + tag)
    t = ts_tree(nego=[c])
    for path in tree_nodes(t):
        for lf in huge_lens(len(good))[:4] + [b"\x80", b"\x84\xff\xff\xff\xff"]:
            add([tree_enc(t, path, lf)], "nestedlen")
    add([good], "creds", cr=creds(b"", b"", b"")); add([good], "creds", cr=creds("dé".encode(), "\U0001f600".encode(), b"x" * 2000))
    return out

# validly SEALED hostile tokens need the real keys: these cases run the real cssp_connect through C01's harness op (`csspgate`:
# preset certificate + preset randomness, so the final round is reached) and C01's extracted model (concrete MD4/MD5/RC4)
OP_GROUPS = {"csspgate": "csspgate"}

def sealed_cases(quick, rng):
    """a server that KNOWS the session key and seals hostile plaintexts as pubKeyAuth: empty, short, off-by-one around the
    key length, long, beyond one link read; plus every truncation of the token below / around the signature"""
    import c01, credssp
    out = []
    F = nlmp_flags()
    cfgs = [c01.Cfg(rng, "user", "DOM", "pw", F), c01.Cfg(rng, "Usér", "", "p\U0001F600", F, mode="hash", cert=1, ra=True)]
    for c in cfgs:
        pk = credssp.pubkey(c.cert)
        lens = [0, 1, 2, 3, 15, 16, 17, len(pk) - 1, len(pk), len(pk) + 1, 1000, 1400, 1484, 1500, 3000] + ([] if quick else list(range(4, 15)) + [4000, 20000, 70000])
        for n in lens:
            for fillb in ((0,), (0xff,), None):
                pt = bytes(rng.randrange(256) for _ in range(n)) if fillb is None else bytes(fillb) * n
                out.append((c.final(c.s2c().seal(pt), "sealed-hostile")[0], ("csspgate", "sealed:%d" % n)))
        honest = c.s2c().seal(credssp.le_add(pk, 1))
        for cut in list(range(0, 33)) + [len(honest) - 1]:
            out.append((c.final(honest[:cut], "trunc")[0], ("csspgate", "trunc")))
        out.append((c.final(honest, "honest")[0], ("csspgate", "honest")))
    return out

def nlmp_flags():
    import nlmp
    return nlmp.CLIENT_FLAGS | nlmp.NEG_VERSION

def gen_cases(tier, rng):
    quick = tier == "quick"
    cases = []
    cases += sealed_cases(quick, rng)
    cases += der_cases("tsreq", tsreq_items(), quick, rng, tree=ts_tree(nego=[b"\x01\x02\x03"]))
    cases += der_cases("tsval", tsval_items(), quick, rng, tree=ts_tree(pub_key_auth=b"\x01\x02\x03"))
    cases += chal_cases(quick, rng)
    cases += unwrap_cases(quick, rng)
    cases += cssp_cases(quick, rng)
    cases += shorts("tsreq", quick, rng) + shorts("tsval", quick, rng)
    cases += shorts("chal", True, rng, prefix="1 %s " % creds())
    cases += [(l + " 0", e) for (l, e) in shorts("unwrap", True, rng)]
    if not quick:
        for op, pre, post in (("chal", "1 %s " % creds(), ""), ("unwrap", "", " 0")):
            for _ in range(200000):
                n = rng.randrange(3, 9)
                cases.append(("%s %s%s%s" % (op, pre, hx(bytes(rng.randrange(256) for _ in range(n))), post), (op, "short")))
    return cases

# ------------------------------------------------------------------ judging
def tok_len(t):
    if t in ("-", "."): return 0
    if t.startswith("@"): return int(t[1:].split(":")[0])
    return len(t) // 2

def received(line):
    """(bytes received from the server, credential bytes) of a case"""
    f = line.split()
    if f[0] in ("tsreq", "tsval", "unwrap"): return tok_len(f[1]), 0
    if f[0] == "chal": return tok_len(f[5]), sum(tok_len(x) for x in f[2:5])
    if f[0] == "csspnla": return sum(tok_len(x) for x in f[5].split(",")), sum(tok_len(x) for x in f[2:5])
    if f[0] == "csspgate": return sum(tok_len(x) for x in f[10].split(",")), sum(tok_len(x) for x in f[2:5])
    return 0, 0

def alloc_limit(line):
    n, c = received(line)
    return 2 * max(65536, 4 * (n + c) + 1024) + 4096

def outcome(out):
    return out.split(" ")[0] if out else "crashed"

def classify(line, out):
    o = outcome(out)
    return o if o in ("panic", "spin", "crashed") else line.split()[0] + ":" + o

def shape(line):
    f = line.split()
    return "%s:%d" % (f[0], min(received(line)[0], 4000) // 8)

def nontrivial(line, out):
    n, _ = received(line)
    return not (n < 4 and outcome(out) in ("err:Io", "err:Asn1"))

def oracle(line, out, expect):
    o = outcome(out)
    f = line.split()
    if o in ("panic", "spin", "crashed", "") or out.startswith("crashed"):
        if f[0] == "chal" and f[1] == "0" and o == "panic":
            return None       # client API misuse (no negotiate message yet): outside the property's quantifier, see ASSUMPTIONS
        return "%s on hostile server bytes: %s" % (f[0], o or "no output")
    if not (o == "ok" or o.startswith("err:")):
        return "unexpected output: " + out[:80]
    if " #a=" in out:
        a = int(out.split(" #a=")[1].split()[0])
        lim = alloc_limit(line)
        if a > lim:
            return "largest single allocation %d bytes exceeds %d for %d bytes received" % (a, lim, received(line)[0])
    return None
from ties import of as _tie_of; TIE_LAYOUTS, TIE_PINS, TIE_ENUMS = _tie_of("C07")   # static-tie lemmas (coq/Gen/Tie) this property depends on
