"""C03: the connection sequence conforms end to end, for every conforming server and configuration.
A python REFERENCE SERVER (encoders written from MS-RDPBCGR 1.3.1.1 / 2.2.1.*, T.125, T.124, MS-CSSP, MS-NLMP:
gen/rdpconn.py, gen/rdp.py, gen/credssp.py, gen/nlmp.py) produces, for every choice of its parameters, the script of
replies; the harness op `flow` plays the script in lock step against the real Connector::connect + RdpClient::read
loop + shutdown over an in-process TLS session; the model (coq/Flow.v, extracted) runs on the same script.
The ORACLE below is independent of the model: it decodes the server's own script to learn the identifiers the
server assigned, decodes every unit the client wrote with the strict parsers of gen/strictpdu.py, and checks
success, the mandated order, causality (what the client had sent when each reply was released), the identifiers
carried by every message, the configuration values, and the shutdown ultimatum."""
import os, re, struct
from common import *
from rdp import *
from rdpconn import *
import strictpdu as S
import credssp, nlmp
from rdp import per_len as per_len_enc

GROUP = "flow"
MODEL_FILES = ["coq/Flow.v", "coq/FlowRun.v", "coq/FlowNla.v", "coq/FlowNlaRun.v", "coq/Connect.v", "coq/Global.v", "coq/ClientPdus.v", "coq/CsspGate.v", "coq/CsspGateExec.v",
               "coq/LayoutsConnect.v", "coq/LayoutsGlobal.v", "coq/Msg.v", "coq/BerYasna.v", "coq/Tpkt.v", "coq/Link.v"]
PROFILES = ["debug", "release"]
RULE = ("conforming servers over every parameter dimension: user id {1001, 1002, 1003, 1004, 1005, 65534, 65535, random}, I/O channel id "
        "{1003 and others incl. 1, 1002, 1004, 65535}, share id over 32-bit boundaries, reported version {RDP4, RDP5+, others}, optional "
        "server core fields present / absent, GCC block orders and unknown blocks, node id / tag, licence variants {valid-client error alert "
        "with preamble flags 0x03 / 0x83 / 0x02 / 0x82 and any error blob, new-licence}, licence security flags, capability sets known / "
        "unknown / reordered / none, source descriptors, selected protocol SSL or HYBRID (NLA through a scripted CredSSP/NTLMv2 server with "
        "preset client randomness), 0..3 deactivate / reactivate rounds, set-error-info PDUs in between, every fragmentation class of the "
        "server stream (whole, split at every layer boundary, random, 1-byte dribble); configurations: screen sizes, all keyboard layouts, "
        "names / credentials from all of Unicode, auto logon, restricted admin, blank credentials, password or NT hash, certificate "
        "checking; and every prefix of a script (the server stops before reply k).  Observed: every unit the client wrote, raw or inside "
        "TLS, interleaved with the release of each reply, and the results.  On every NLA run the EXTRACTED reference CredSSP / NTLM server of the "
        "theorems (coq/RefCredssp.v) is evaluated on the TSRequests the real client wrote: its replies must equal the python reference's byte for "
        "byte and it must accept each message (session key, TSPasswordCreds per mode).  Non-trivial = distinct (parameter classes, outcome).")
TRUSTED_BASE = ["Coq 8.16.1 kernel", "hand-written model coq/Flow.v over Connect.v / Global.v / ClientPdus.v / CsspGate.v tied to /repo by this correspondence run",
                "coq/RefSequence.v: the reading of MS-RDPBCGR 1.3.1.1 (mandated order) and of the server PDUs (reference encoders) embodied in the spec; coq/StrictPdu.v (C04's strict parsers) as the observer of identifiers",
                "extraction (ExtrOcamlBasic) + ocaml/flow/driver.ml", "Rust harness/src/flow.rs (threaded in-memory duplex, lock-step scripted server, native-tls acceptor with fixture identity 0; hooks model::rnd::verif)",
                "gen/c03.py oracle with gen/strictpdu.py, gen/rdpconn.py, gen/rdp.py, gen/credssp.py, gen/nlmp.py",
                "coq/RefCredssp.v (the reference CredSSP / NTLM server of the NLA theorems: the reading of MS-CSSP 3.1.5 / MS-NLMP 3.2.5, 3.4 embodied in the spec), tied on every NLA case to gen/credssp.py byte for byte (extracted, op refcssp, on the client's actual messages)",
                "external, modelled as oracles: native-tls / OpenSSL (handshake, record layer: one record = one read), yasna (BER reader of the connect-response: BerYasna.v; DER of TSRequests: DerRead.v), x509-parser (public key bytes are a parameter), HashMap iteration order (one bit)"]
ASSUMPTIONS = ["the TLS handshake with the server succeeds and delivers the server's records as the chunks of the stream (oracle tls_start)",
               "the order of the two channel joins is HashMap iteration order: either order is accepted, the model takes it as a configuration bit and the harness repeats the run until the order matches",
               "known finding C03-credssp-split: a CredSSP TSRequest that does not arrive in ONE transport read of at most 1500 bytes is not reassembled (single Link::read(0)); the theorem and the generator keep each TSRequest in one record"]

UID_B = [1001, 1002, 1003, 1004, 1005, 1007, 33768, 65534, 65535]
IO_B = [1003, 1003, 1003, 1004, 1005, 1002, 1, 1000, 1001, 2000, 65535]
V32 = [0, 1, 0xff, 0x100, 0xffff, 0x10000, 0x000103ea, 0x7fffffff, 0x80000000, 0xfffffffe, 0xffffffff, 0x12345678]
VERSIONS = [0x00080004, 0x00080001, 0x00080005, 0x0008000f, 0, 0xffffffff]
LAYOUTS = [0x401, 0x402, 0x404, 0x405, 0x406, 0x407, 0x408, 0x409, 0x40a, 0x40b, 0x40c, 0x40d, 0x40e, 0x40f, 0x410, 0x411, 0x412, 0x413, 0x414]
V16 = [0, 1, 2, 127, 128, 255, 256, 0x7fff, 0x8000, 0xfffe, 0xffff, 800, 600, 1024, 768]
SERVER_CHANNEL = 1002           # MS-RDPBCGR: the server's MCS channel id 0x03EA (originatorId MUST be 0x03EA)
NEGOTIATE = bytes.fromhex("4e544c4d53535000010000003582086000000000000000000000000000000000")

# ------------------------------------------------------------------ the conforming server (parameters -> script)
class Server:
    """a CONFORMING server: in particular the I/O channel and the user channel are two channels (io != uid)"""
    def __init__(self, sel=1, uid=1004, io=1003, version=0x00080004, requested=True, early=None, node=0x79f3, tag=1,
                 blocks="csn", unknown=(), lic=("valid", 3, b""), lic_sec=0x0080, rounds=(dict(),), extras=(), net_channels=(),
                 neg_flags=0, src_ref=0, ber_form=None):
        assert io != uid, "a conforming server assigns distinct ids to distinct channels"
        self.sel, self.uid, self.io, self.version = sel, uid, io, version
        self.requested, self.early, self.node, self.tag = requested, early, node, tag
        self.blocks, self.unknown, self.lic, self.lic_sec = blocks, tuple(unknown), lic, lic_sec
        self.rounds = [dict(r) for r in rounds]
        for i, r in enumerate(self.rounds):
            r.setdefault("sid", 0x000103ea + 0x10001 * i)
            r.setdefault("caps", (GENERAL_CAP, BITMAP_CAP, INPUT_CAP))
            r.setdefault("source", b"RDP\x00")
        self.extras = set(extras)        # positions (reply indices of the session phase) after which a set-error-info is inserted
        self.net_channels = tuple(net_channels)
        self.neg_flags, self.src_ref = neg_flags, src_ref
        self.ber_form = ber_form         # None = minimal (DER-like) lengths; k = every length of the connect response in the k-octet long form (BER allows it)

    def in_coq_spec(self):
        """the part of the server space coq/RefSequence.v encodes (the theorems' conforming server)"""
        return (self.blocks == "csn" and not self.unknown and self.node == 0x79f3 and self.tag == 1 and not self.extras
                and not self.net_channels and (self.lic[0] == "new" or self.lic[2] == b"") and self.sel in (1, 2)
                and all(r.get("session", 0) == 0 for r in self.rounds) and self.ber_form is None)

    # the replies, in order; each is (kind, raw|tls, bytes)
    def gcc(self):
        core = sc_core(self.version, (self.sel if self.requested else None), self.early if self.requested else None)
        parts = {"c": core, "s": sc_security(0, 0), "n": sc_net(self.io, self.net_channels)}
        b = b"".join(parts[k] for k in self.blocks)
        for (t, body) in self.unknown: b += gcc_block(t, body)
        return gcc_response(self.node, self.tag, b)

    def licence(self):
        kind, flags, data = self.lic
        if kind == "valid": lic = lic_preamble(0xff, lic_error(7, 2, lic_blob(4 if data else 0, data)), flags=flags)
        else: lic = lic_preamble(0x03, data, flags=flags)
        return slow_frame(sec_license(lic, flags=self.lic_sec), uid=SERVER_CHANNEL, chan=self.io)

    def sf(self, payload):
        return slow_frame(payload, uid=SERVER_CHANNEL, chan=self.io)

    def connect_replies(self, order):
        chans = [self.io, self.uid] if order == "g" else [self.uid, self.io]
        return [("cc", tpkt(x224_cc(neg_rsp(self.sel, flags=self.neg_flags), src=self.src_ref))),
                ("mcs", tpkt(x224_data(connect_response(self.gcc(), form=self.ber_form)))),
                ("attach", attach_frame(uid=self.uid)),
                ("join", join_frame(uid=self.uid, chan=chans[0])),
                ("join", join_frame(uid=self.uid, chan=chans[1])),
                ("lic", self.licence())]

    def session_replies(self):
        out = []
        for i, r in enumerate(self.rounds):
            sid = r["sid"]
            if i > 0: out.append(("deactivate", self.sf(deactivate_all(self.rounds[i - 1]["sid"]))))
            out.append(("demand", self.sf(demand_active(sid, caps=r["caps"], source=r["source"]))))
            out.append(("sync", self.sf(synchronize(self.uid, sid))))
            out.append(("coop", self.sf(control(4, 0, 0, sid))))
            out.append(("granted", self.sf(control(2, self.uid, SERVER_CHANNEL, sid))))
            out.append(("fontmap", self.sf(font_map(sid))))
        res = []
        for k, x in enumerate(out):
            res.append(x)
            if k in self.extras: res.append(("errinfo", self.sf(set_error_info(0, self.rounds[0]["sid"]))))
        return res

def per_integer(v):
    """unconstrained INTEGER as the RDP stacks exchange it: length 1, 2 or 4 and the value big endian"""
    if v < 0x100: return b"\x01" + bytes([v])
    if v < 0x10000: return b"\x02" + be16(v)
    return b"\x04" + be32(v)

def gcc_response(node, tag, blocks, result=0):
    """MS-RDPBCGR 2.2.1.4: ConnectData { key, connectPDU = ConferenceCreateResponse { nodeID, tag, result, userData { h221 "McDn", blocks } } }"""
    tail = bytes([0x14]) + be16(node - 1001) + per_integer(tag) + bytes([result, 1, 0xc0, 0]) + b"McDn" + per_len_enc(len(blocks)) + blocks
    return bytes([0, 5, 0, 0x14, 0x7c, 0, 1]) + per_len_enc(len(tail)) + tail

class Config:
    def __init__(self, nla=False, ram=False, auto=False, blank=False, hash_mode=False, check=False, w=800, h=600, layout=0x409,
                 name="rdp-rs", dom="", user="", pw="", rnd=b""):
        self.nla, self.ram, self.auto, self.blank, self.hash_mode, self.check = nla, ram, auto, blank, hash_mode, check
        self.w, self.h, self.layout, self.name, self.dom, self.user, self.pw, self.rnd = w, h, layout, name, dom, user, pw, rnd
    def offered(self): return 3 if self.nla else 1

def chunked(b, rng, mode):
    """one reply as the list of transport reads that deliver it"""
    b = bytes(b)
    if mode == "whole" or len(b) < 2: return [b]
    if mode == "dribble": return [b[i:i + 1] for i in range(len(b))]
    if mode == "header":      # TPKT header | X.224 header | rest
        cuts = [c for c in (4, 7) if c < len(b)]
    elif mode == "two": cuts = [rng.randrange(1, len(b))]
    else: cuts = sorted(set(rng.randrange(1, len(b)) for _ in range(rng.randrange(1, 5))))
    out = []; p = 0
    for c in cuts + [len(b)]:
        if c > p: out.append(b[p:c]); p = c
    return out

def nla_run(cfg, srv_chal):
    nonce, key = cfg.rnd[:8], cfg.rnd[8:24]
    return credssp.Run(cfg.user, cfg.dom, cfg.pw, nlmp.nt_hash(cfg.pw), srv_chal, nonce, key, cert=0,
                       restricted=(cfg.ram or cfg.blank), hash_mode=cfg.hash_mode)

def default_challenge(rng=None, flags=None):
    f = (nlmp.CLIENT_FLAGS | nlmp.NEG_VERSION) if flags is None else flags
    ti = nlmp.av_pairs([(2, nlmp.utf16("DOM")), (1, nlmp.utf16("SRV")), (7, bytes([0x10, 0x32, 0x54, 0x76, 0x98, 0xba, 0xdc, 0x01])), (3, nlmp.utf16("srv.dom"))])
    ch = bytes(range(1, 9)) if rng is None else bytes(rng.randrange(256) for _ in range(8))
    return nlmp.challenge_message(f, ch, ti, target_name=nlmp.utf16("DOM"))

def build_script(cfg, srv, order="g", rng=None, frag="whole", cut=None, nla_chal=None, cssp_split=False):
    """-> (steps, nreads, nreplies).  cut = k: the server stops before reply k (replies counted from 0)"""
    import random
    rng = rng or random.Random(0)
    conn = srv.connect_replies(order)
    sess = srv.session_replies()
    replies = []          # (mode, chunks)
    replies.append(("R", chunked(conn[0][1], rng, frag)))
    tls_at = 1
    if srv.sel == 2:
        run = nla_run(cfg, nla_chal or default_challenge())
        r1 = run.reply1(); r2 = credssp.ts_request(pub_key_auth=run.honest_pub_key_auth())
        for r in (r1, r2):
            replies.append(("S", [r[:len(r) // 2], r[len(r) // 2:]] if cssp_split else [r]))
    for (_, b) in conn[1:]: replies.append(("S", chunked(b, rng, frag)))
    for (_, b) in sess: replies.append(("S", chunked(b, rng, frag)))
    steps = []
    for k, (m, ch) in enumerate(replies):
        if cut is not None and k >= cut: break
        if k == tls_at: steps.append("T")
        steps.append("%s:%s" % (m, "/".join(hx(c) for c in ch)))
    if (cut is None or cut >= tls_at) and len(replies) == tls_at: steps.append("T")
    if cut is not None and cut == tls_at and "T" not in steps: steps.append("T")
    return steps, len(sess), len(replies)

def cps_hex(s): return hx(s.encode("utf-8"))

def case_line(cfg, srv, order="g", **kw):
    steps, nreads, nrep = build_script(cfg, srv, order, **kw)
    hash_hex = nlmp.nt_hash(cfg.pw).hex() if cfg.hash_mode else "-"
    line = "flow %d %d %d %d %s %d %d %d %d %s %s %s %s %s %s %s %s %d %s" % (
        1 if cfg.nla else 0, 1 if cfg.ram else 0, 1 if cfg.auto else 0, 1 if cfg.blank else 0, hash_hex, 1 if cfg.check else 0,
        cfg.w, cfg.h, cfg.layout, cps_hex(cfg.name), cps_hex(cfg.dom), cps_hex(cfg.user), cps_hex(cfg.pw), cps_hex(cfg.user.upper()),
        credssp.pubkey(0).hex() if cfg.nla else "-", hx(cfg.rnd), order, nreads, " ".join(steps))
    return line

def kinds_of_log(ev, uid, io, order):
    """the mandated client sequence of expected_log as the kinds of coq/RefSequence.v"""
    out = []; joins = [io, uid] if order == "g" else [uid, io]
    for e in ev:
        if e[0] != "c": continue
        c = e[1]
        if isinstance(c, tuple): out.append("join.%d.%d" % (uid, joins.pop(0))); continue
        t = c.split()
        if t[0] == "cr": out.append("req")
        elif t[0] == "ci": out.append("ci")
        elif t[0] == "erect": out.append("ed")
        elif t[0] == "attach": out.append("au")
        elif t[0] == "info": out.append("info.%s.%s" % (t[1], t[2]))
        elif t[0] == "confirm": out.append("confirm.%s.%s.%s.%s" % (t[1], t[2], t[3], t[4]))
        elif t[0] == "sync": out.append("sync.%s.%s.%s.%s.%s" % (t[1], t[2], t[3], t[4], t[5]))
        elif t[0] == "control": out.append("ctl.%s.%s.%s.%s.%s" % (t[1], t[2], t[3], t[4], t[5]))
        elif t[0] == "fontlist": out.append("font.%s.%s.%s.%s" % (t[1], t[2], t[3], t[4]))
        elif t[0] == "disc": out.append("disc")
        elif t[0] == "cssp": pass
    return out

def parse_capset(cb):
    t, n = struct.unpack("<HH", cb[:4]); return (t, cb[4:n])

def refsrv_line(srv, order):
    """the python reference server's replies and mandated sequence next to the parameters, for the Coq specification
    (coq/RefSequence.v) to be evaluated on the same parameters"""
    assert srv.in_coq_spec()
    replies = [b for (_, b) in srv.connect_replies(order)] + [b for (_, b) in srv.session_replies()]
    steps = ["R:" + hx(replies[0]), "T"] + ["S:" + hx(r) for r in replies[1:]]
    # the CredSSP exchange is not part of the Coq server: the sequence is read off the script as an SSL conversation
    ev, _ = expected_log(Config(), steps_as_ssl(steps), len(srv.session_replies()))
    kinds = kinds_of_log(ev, srv.uid, srv.io, order)
    lic = ("v:%d:%d" % (srv.lic[1], 0)) if srv.lic[0] == "valid" else ("n:%d:%s" % (srv.lic[1], hx(srv.lic[2])))
    def rnd(r):
        caps = ";".join("%d.%s" % (t, hx(b)) for (t, b) in (parse_capset(c) for c in r["caps"])) or "-"
        return "%d:%s:%s:0" % (r["sid"], hx(r["source"]), caps)
    rounds = ",".join(rnd(r) for r in srv.rounds) or "-"
    o = lambda v: "-" if v is None else str(v)
    return "refsrv %s %d %d %d %d %d %d %s %s %s %d %s %s %s" % (
        order, srv.sel, srv.neg_flags, srv.src_ref, srv.uid, srv.io, srv.version, o(srv.sel if srv.requested else None),
        o(srv.early if srv.requested else None), lic, srv.lic_sec, rounds, ",".join(hx(r) for r in replies), ";".join(kinds))

def steps_as_ssl(steps):
    """the same script with the selected protocol of the connection confirm read as SSL (for the sequence only)"""
    out = []
    for st in steps:
        if st.startswith("R:"):
            b = bytearray(bytes.fromhex(st[2:])); b[15:19] = le32(1); out.append("R:" + bytes(b).hex())
        else: out.append(st)
    return out

# ------------------------------------------------------------------ reference DECODER of the server's script (what the server assigned)
class Rd(S.Rd): pass

def split_units(b):
    """server bytes -> TPKT frames / DER TLVs"""
    out = []; i = 0
    while i < len(b):
        if b[i] == 3:
            n = struct.unpack(">H", b[i + 2:i + 4])[0]; out.append(b[i:i + n]); i += n
        elif b[i] == 0x30:
            l = b[i + 1]; h = 2
            if l & 0x80: k = l & 0x7f; l = int.from_bytes(b[i + 2:i + 2 + k], "big"); h = 2 + k
            out.append(b[i:i + h + l]); i += h + l
        else: raise S.Bad("server unit")
    return out

def per_len(r):
    n = r.u8()
    if n & 0x80: n = ((n & 0x7f) << 8) | r.u8()
    return n

def decode_server(steps):
    """-> dict(sel, uid, io, version, rounds=[share ids], kinds=[kind of each reply], nla) read from the script itself"""
    info = dict(sel=None, uid=None, io=None, version=None, shares=[], kinds=[], joins=[])
    for st in steps:
        if st == "T" or st.startswith("%"): continue
        b = b"".join(bytes.fromhex(c) if c != "-" else b"" for c in st[2:].split("/"))
        for u in split_units(b):
            if u[0] == 0x30: info["kinds"].append("cssp"); continue
            t = u[4:]
            if len(t) > 1 and t[1] == 0xd0:
                info["sel"] = struct.unpack("<I", t[11:15])[0] if len(t) >= 15 and t[7] == 2 else None
                info["kinds"].append("cc"); continue
            p = t[3:]
            if p[0] == 0x7f:
                # T.125 Connect-Response: result, calledConnectId, domainParameters, userData
                r = Rd(p); r.take(2); S.ber_len(r)
                for _tag in (0x0a, 0x02, 0x30):
                    r.u8(); n = S.ber_len(r); r.take(n)
                r.u8(); n = S.ber_len(r); ud = Rd(r.take(n))
                # T.124 ConnectData / ConferenceCreateResponse (MS-RDPBCGR 2.2.1.4)
                ud.take(7); per_len(ud); ud.take(1 + 2)
                k = ud.u8(); ud.take(k)            # tag: length determinant, content
                ud.take(1 + 1 + 1 + 1 + 4)         # result, number of sets, choice, key length, "McDn"
                n2 = per_len(ud)
                blk = Rd(ud.take(n2))
                while blk.left() >= 4:
                    ty = blk.le16(); ln = blk.le16(); body = blk.take(ln - 4)
                    if ty == 0x0c01: info["version"] = struct.unpack("<I", body[:4])[0]
                    if ty == 0x0c03: info["io"] = struct.unpack("<H", body[:2])[0]
                info["kinds"].append("mcs"); continue
            c = p[0] >> 2
            if c == 11: info["uid"] = struct.unpack(">H", p[2:4])[0] + 1001; info["kinds"].append("attach"); continue
            if c == 15: info["joins"].append(struct.unpack(">H", p[4:6])[0]); info["kinds"].append("join"); continue
            if c == 26:
                r = Rd(p); r.take(1 + 2 + 2 + 1); n = per_len(r); d = r.take(n)
                if struct.unpack("<H", d[2:4])[0] == 0 and struct.unpack("<H", d[0:2])[0] & 0x80: info["kinds"].append("lic"); continue
                pt = struct.unpack("<H", d[2:4])[0] & 0xf
                if pt == 1: info["shares"].append(struct.unpack("<I", d[6:10])[0]); info["kinds"].append("demand"); continue
                if pt == 6: info["kinds"].append("deactivate"); continue
                if pt == 7:
                    t2 = d[14]
                    info["kinds"].append({0x1f: "sync", 0x14: "control", 0x28: "fontmap", 0x2f: "errinfo"}.get(t2, "data")); continue
            info["kinds"].append("other")
    return info

# ------------------------------------------------------------------ what the standard mandates the client to send
def expected_name(s):
    out = []; n = 0
    for c in [ord(x) for x in s]:
        k = 2 if c >= 0x10000 else 1
        if n + k > 15: break
        out.append(c); n += k
    if 0 in out: out = out[:out.index(0)]
    return out

def cpl(s): return S._ns([ord(c) for c in s])

def parse_line(line):
    t = line.split()
    d = lambda h: bytes.fromhex(h if h != "-" else "").decode("utf-8")
    cfg = Config(nla=t[1] == "1", ram=t[2] == "1", auto=t[3] == "1", blank=t[4] == "1", hash_mode=t[5] != "-", check=t[6] == "1",
                 w=int(t[7]), h=int(t[8]), layout=int(t[9]), name=d(t[10]), dom=d(t[11]), user=d(t[12]), pw=d(t[13]),
                 rnd=bytes.fromhex(t[16]) if t[16] != "-" else b"")
    return cfg, t[17], int(t[18]), [s for s in t[19:] if not s.startswith("%")]

def expected_log(cfg, steps, nreads):
    """the mandated interleaving: list of events ('c', canonical text | cssp bytes) / ('s', k) / ('tls',) / ('eof',)
    following MS-RDPBCGR 1.3.1.1: each client message only after the reply it depends on"""
    srv = decode_server(steps)
    kinds = srv["kinds"]
    uid, io, ver = srv["uid"], srv["io"], srv["version"]
    has_tls = "T" in steps
    ev = []
    k = 0                      # replies released so far
    def release(kind):
        nonlocal k
        if k < len(kinds) and kinds[k] == kind:
            ev.append(("s", k)); k += 1; return True
        return False
    def stop():
        ev.append(("eof",)); return ev, False
    ev.append(("c", "cr flags=%d protocols=%d" % (1 if cfg.ram else 0, cfg.offered())))
    if not release("cc"): return stop()
    if not has_tls: return stop()       # the server never starts TLS: nothing more may be sent
    ev.append(("tls",))
    if srv["sel"] == 2:
        chal = None
        # the CHALLENGE is inside the first TSRequest of the script
        b = b"".join(bytes.fromhex(c) for st in steps if st.startswith("S:") for c in st[2:].split("/"))
        us = [u for u in split_units(b) if u[0] == 0x30]
        pos = us[0].find(b"NTLMSSP\0") if us else -1
        chal = us[0][pos:] if pos >= 0 else default_challenge()
        msgs = nla_run(cfg, chal).client_messages()
        ev.append(("c", "cssp " + msgs[0].hex()))
        if not release("cssp"): return stop()
        ev.append(("c", "cssp " + msgs[1].hex()))
        if not release("cssp"): return stop()
        ev.append(("c", "cssp " + msgs[2].hex()))
    core = "core=%d,%d,%d,%d,%d,%d,%d,%s,4,0,12,-,%s" % (0x00080004, cfg.w, cfg.h, 0xCA01, 0xAA03, cfg.layout, 3790, S._ns(expected_name(cfg.name)),
                                                        S._ns([0xCA01, 1, 0, 24, 10, 1, 0, 0, 0, srv["sel"]]))
    ev.append(("c", "ci target=34.2.0.1.0.1.65535.2 min=1.1.1.1.0.1.1056.2 max=65535.64535.65535.1.0.1.65535.2 %s security=11,0 net=0" % core))
    if not release("mcs"): return stop()
    ev.append(("c", "erect 0 0")); ev.append(("c", "attach"))
    if not release("attach"): return stop()
    ev.append(("c", ("join", uid, io)))          # either order: resolved by the comparison
    if not release("join"): return stop()
    ev.append(("c", ("join", uid, io)))
    if not release("join"): return stop()
    ic = "%d %d" % (uid, io)
    d, u, p = ("", "", "") if cfg.ram else (cfg.dom, cfg.user, cfg.pw)
    ev.append(("c", "info %s 0 %d %s %s %s - - %s" % (ic, 0x10153 | (8 if cfg.auto else 0), cpl(d), cpl(u), cpl(p),
                                                     "2,-,-,0,0" if ver == 0x00080004 else "none")))
    if not release("lic"): return stop()
    # the session: one RdpClient::read per server frame
    state = "demand"; share = None; si = 0
    for _ in range(nreads):
        if k >= len(kinds): return stop()
        kind = kinds[k]; ev.append(("s", k)); k += 1
        if state == "demand" and kind == "demand":
            share = srv["shares"][si]; si += 1
            ev.append(("c", "confirm %s %d %d source=%s caps=1.2.3.4.8.12.13.15.16.17.20.26 general=1045 bitmap=24,%d,%d input=21,%d,4,0,12" % (
                ic, uid, share, hx(cfg.name.encode("utf-8")), cfg.w, cfg.h, cfg.layout)))
            ev.append(("c", "sync %s %d %d %d" % (ic, uid, share, SERVER_CHANNEL)))
            ev.append(("c", "control %s %d %d 4 0 0" % (ic, uid, share)))
            ev.append(("c", "control %s %d %d 1 0 0" % (ic, uid, share)))
            ev.append(("c", "fontlist %s %d %d" % (ic, uid, share)))
            state = "sync"
        elif state == "sync" and kind == "sync": state = "coop"
        elif state == "coop" and kind == "control": state = "granted"
        elif state == "granted" and kind == "control": state = "fontmap"
        elif state == "fontmap" and kind == "fontmap": state = "data"
        elif state == "data" and kind == "deactivate": state = "demand"
    ev.append(("c", "disc 3"))
    return ev, True

# ------------------------------------------------------------------ the Coq reference CredSSP server on the client's ACTUAL messages
# coq/RefCredssp.v (the CredSSP / NTLM server of the NLA theorems of C03), EXTRACTED into the flow driver (op `refcssp`), is
# evaluated on the TSRequests the real client wrote in this run; its replies must be, byte for byte, the replies of the
# python reference server (gen/credssp.py + gen/nlmp.py) that scripted the run, and it must accept each message (session key
# recovered, TSPasswordCreds per mode).  This ties the specification the theorems quantify over to the oracle that feeds the crate.
_REFCSSP = {"p": None}
def _refcssp_eval(line):
    import subprocess
    drv = os.path.join(os.path.dirname(os.path.abspath(__file__)), "..", "ocaml", "flow", "driver")
    if not os.path.exists(drv): return None
    for _ in range(2):
        p = _REFCSSP["p"]
        if p is None or p.poll() is not None:
            p = subprocess.Popen([drv], stdin=subprocess.PIPE, stdout=subprocess.PIPE, stderr=subprocess.DEVNULL)
            _REFCSSP["p"] = p
        try:
            p.stdin.write((line + "\n").encode()); p.stdin.flush()
            out = p.stdout.readline().decode("utf-8", "replace").strip()
            if out: return out
        except (BrokenPipeError, OSError):
            pass
        _REFCSSP["p"] = None
    return "crashed"

def script_challenge(steps):
    """the CHALLENGE_MESSAGE inside the first CredSSP reply of the script (the default one when the script has none)"""
    b = b"".join(bytes.fromhex(c) for st in steps if st.startswith("S:") for c in st[2:].split("/") if c != "-")
    try: us = [u for u in split_units(b) if u[0] == 0x30]
    except Exception: us = []
    pos = us[0].find(b"NTLMSSP\0") if us else -1
    return us[0][pos:] if pos >= 0 else default_challenge()

def refcssp_line(cfg, chal, msgs):
    """the parameters of the reference CredSSP server of this run, as the fields of coq/RefNlmp.v challenge_fields"""
    flags = struct.unpack_from("<I", chal, 20)[0]
    tn_len, tn_max, tn_off = struct.unpack_from("<HHI", chal, 12)
    ti_len, ti_max, ti_off = struct.unpack_from("<HHI", chal, 40)
    hdr = 56 if flags & nlmp.NEG_VERSION else 48
    version = chal[48:56] if flags & nlmp.NEG_VERSION else bytes(8)
    pre, ti, post = chal[hdr:ti_off], chal[ti_off:ti_off + ti_len], chal[ti_off + ti_len:]
    return "refcssp %s %s %s %s %d %s %s %d %d %d %d %s %s %s %s %s %s" % (
        cps_hex(cfg.user), cps_hex(cfg.dom), nlmp.nt_hash(cfg.pw).hex(), cps_hex(cfg.user.upper()), flags, hx(chal[24:32]), hx(chal[32:40]),
        tn_len, tn_max, tn_off, ti_max, hx(version), hx(pre), hx(ti), hx(post), credssp.pubkey(0).hex(),
        ",".join(m.hex() for m in msgs) if msgs else "-")

def refcssp_check(cfg, steps, msgs):
    """None, or why the extracted Coq reference server disagrees with the python reference on the client's messages"""
    chal = script_challenge(steps)
    run = nla_run(cfg, chal)
    got = _refcssp_eval(refcssp_line(cfg, chal, msgs))
    if got is None: return None           # no driver built (the pipeline reports that itself)
    r1 = run.reply1(); r2 = credssp.ts_request(pub_key_auth=run.honest_pub_key_auth())
    want_r = [r1, r2][:min(len(msgs), 2)]
    enc = (lambda x: x.encode("utf-16-le")) if run.flags & nlmp.NEG_UNICODE else (lambda x: x.encode("utf-8"))
    if run.restricted: d = u = pw = b""
    else: d, u, pw = enc(cfg.dom), enc(cfg.user), enc("" if cfg.hash_mode else cfg.pw)
    key = cfg.rnd[8:24]
    want_st = ["start", "challenged", "authenticated:" + hx(key), "done:%s:%s:%s:%s" % (hx(key), hx(d), hx(u), hx(pw))][min(len(msgs), 3)]
    want = "ok r=%s st=%s" % (",".join(x.hex() for x in want_r) if want_r else "-", want_st)
    if got != want:
        return ("the reference CredSSP server of the theorems (coq/RefCredssp.v, extracted) on the client's %d CredSSP message(s): %s ; "
                "the python reference server / the property expects %s" % (len(msgs), got[:300], want[:300]))
    return None

# ------------------------------------------------------------------ judging one run
def parse_out(out):
    m = re.match(r"(\S+) ev=(\S+)", out.split(" #")[0])
    if not m: return None
    ev = [] if m.group(2) == "-" else m.group(2).split(",")
    if " #eof=1" in out: ev.append("eof")
    return m.group(1), ev

def decode_unit(h, where):
    b = bytes.fromhex(h)
    if b[:1] == b"\x30": return "cssp " + h
    try:
        k, f = S.client_frame(b)
        return S.canon(k, f)
    except S.Bad as e:
        raise S.Bad("%s: %s" % (where, e))

def oracle(line, out, expect):
    if line.startswith("refsrv "): return None       # the two references are compared by the pipeline's diff
    o = parse_out(out)
    if o is None: return "unreadable outcome " + out[:80]
    res, events = o
    if res.startswith("panic") or res in ("spin", "crashed"): return "the connection ended in " + res
    cfg, order, nreads, steps = parse_line(line)
    try:
        want, complete = expected_log(cfg, steps, nreads)
    except Exception as e:
        return None        # not a script of the reference server (replay of a damaged line): nothing to judge
    got = []
    tls = False
    for e in events:
        if e == "tls": got.append(("tls",)); tls = True
        elif re.match(r"s\d+$", e): got.append(("s", int(e[1:])))
        elif e == "eof": got.append(("eof",))
        elif e[:2] in ("r:", "t:"):
            inside = e[0] == "t"
            if inside != tls: return "a unit was written %s" % ("inside TLS before the handshake" if inside else "on the raw transport after the handshake")
            try: got.append(("c", decode_unit(e[2:], "unit %d" % len(got))))
            except S.Bad as ex: return "the client wrote a malformed unit: %s" % ex
        else: return "unexpected event %s" % e[:60]
    # compare event by event: order, causality (position relative to the released replies), identifiers, values
    joins_seen = []
    for i in range(max(len(got), len(want))):
        g = got[i] if i < len(got) else None
        w = want[i] if i < len(want) else None
        if w is not None and w[0] == "c" and isinstance(w[1], tuple):
            _, uid, io = w[1]
            alts = ["join %d %d" % (uid, io), "join %d %d" % (uid, uid)]
            if g is None or g[0] != "c" or g[1] not in alts or g[1] in joins_seen and alts[0] != alts[1]:
                return "event %d: client did %r, the standard mandates a channel join of %s (each once)" % (i, g, alts)
            joins_seen.append(g[1]); continue
        if g != w:
            def sh(x): return None if x is None else (x[0], str(x[1])[:160]) if len(x) > 1 else x
            return "event %d: client/server exchange shows %r where the mandated sequence has %r" % (i, sh(g), sh(w))
    if complete:
        if res != "ok": return "the server conforms and the script is complete, yet the result is %s" % res
    else:
        if res == "ok": return "result ok although the server stopped before the end of the sequence"
    # NLA: the Coq reference CredSSP server (extracted) on the TSRequests the client actually wrote
    cssp_msgs = [bytes.fromhex(g[1][5:]) for g in got if g[0] == "c" and isinstance(g[1], str) and g[1].startswith("cssp ")]
    if cfg.nla and cssp_msgs:
        why = refcssp_check(cfg, steps, cssp_msgs)
        if why: return why
    return None

# ------------------------------------------------------------------ generator
def rstr(rng, n=None):
    n = rng.choice([0, 1, 3, 8, 15, 16, 17, 40]) if n is None else n
    k = rng.randrange(6)
    def ch():
        if k == 0: return rng.randrange(0x20, 0x7f)
        if k == 1: return rng.randrange(0xa0, 0x100)
        if k == 2: return rng.randrange(0x4e00, 0xa000)
        if k == 3: return rng.choice([0x10000, 0x1f600, 0x10ffff])
        while True:
            c = rng.randrange(1, 0x110000)
            if not (0xd800 <= c < 0xe000): return c
    return "".join(chr(ch()) for _ in range(n))

def rand_caps(rng):
    pool = [GENERAL_CAP, BITMAP_CAP, POINTER_CAP, INPUT_CAP, VC_CAP, VC_CAP_SHORT, SHARE_CAP, FONT_CAP, UNKNOWN_CAP,
            capset(0x1d, b"\x01\x02\x03\x04\x05"), capset(22, le32(0)), capset(0x7fff, b""), capset(3, bytes(84))]
    n = rng.choice([0, 1, 3, 5, 9, 13])
    caps = [rng.choice(pool) for _ in range(n)]
    rng.shuffle(caps)
    return tuple(caps)

def rand_server(rng, sel=1, rounds=None):
    uid = rng.choice(UID_B + [rng.randrange(1001, 65536)])
    io = rng.choice(IO_B + [rng.randrange(1, 65536)])
    if io == uid: io = 1003 if uid != 1003 else 1004
    nr = rng.choice([1, 1, 1, 2, 3, 0]) if rounds is None else rounds
    rs = []
    for i in range(nr):
        rs.append(dict(sid=rng.choice(V32 + [rng.randrange(1 << 32)]), caps=rand_caps(rng) if rng.random() < 0.7 else (GENERAL_CAP, BITMAP_CAP, INPUT_CAP),
                       source=rng.choice([b"RDP\x00", b"", b"MSTSC\x00", bytes(rng.randrange(256) for _ in range(rng.randrange(1, 40)))])))
    lic = rng.choice([("valid", 3, b""), ("valid", 0x83, b""), ("valid", 2, b""), ("valid", 0x82, b""), ("valid", 3, bytes(rng.randrange(256) for _ in range(rng.randrange(1, 30)))),
                      ("new", 3, bytes(rng.randrange(256) for _ in range(rng.randrange(0, 60)))), ("new", 0x83, b"\x00" * 8)])
    requested = rng.random() < 0.8
    unknown = []
    if rng.random() < 0.3: unknown.append((0x0c04, le16(rng.randrange(1004, 2000))))       # SC_MCS_MSGCHANNEL
    if rng.random() < 0.3: unknown.append((0x0c08, le32(0)))                              # SC_MULTITRANSPORT
    blocks = rng.choice(["csn", "csn", "csn", "cns", "scn", "snc", "ncs", "nsc"])
    nsess = 5 * nr + max(0, nr - 1)
    extras = [k for k in range(nsess) if rng.random() < 0.1]
    return Server(sel=sel, uid=uid, io=io, version=rng.choice(VERSIONS), requested=requested, early=(rng.choice([None, 0, 1, 0x7]) if requested else None),
                  node=rng.choice([1001, 0x79f3, 65535]) , tag=rng.choice([0, 1, 255, 256, 65535, 65536, 0xffffffff]), blocks=blocks, unknown=unknown, lic=lic,
                  lic_sec=rng.choice([0x0080, 0x0080, 0x0280]), rounds=rs, extras=extras)

def rstr_user(rng):
    """user names for NLA: NTLMv2 upper-cases the user name with Rust's String::to_uppercase (external: its Unicode tables
    are not python's for characters assigned in recent Unicode versions); stay within scripts whose case mapping is stable"""
    n = rng.choice([0, 1, 3, 8, 15, 16, 17, 40])
    pools = [lambda: rng.randrange(0x20, 0x7f), lambda: rng.randrange(0xa0, 0x100), lambda: rng.randrange(0x4e00, 0xa000),
             lambda: rng.choice([0x1f600, 0x1f4a9, 0x20ac, 0x3b1, 0x3c9, 0x430, 0x44f])]
    f = rng.choice(pools)
    return "".join(chr(f()) for _ in range(n))

def rand_config(rng, nla=False):
    c = _rand_config(rng, nla)
    if nla: c.user = rstr_user(rng)
    return c

def _rand_config(rng, nla=False):
    return Config(nla=nla, ram=rng.random() < 0.2, auto=rng.random() < 0.3, blank=rng.random() < 0.2, hash_mode=rng.random() < 0.2, check=rng.random() < 0.3,
                  w=rng.choice(V16 + [rng.randrange(65536)]), h=rng.choice(V16 + [rng.randrange(65536)]), layout=rng.choice(LAYOUTS),
                  name=rstr(rng), dom=rstr(rng), user=rstr(rng), pw=rstr(rng), rnd=bytes(rng.randrange(256) for _ in range(24)))

def gen_cases(tier, rng):
    quick = tier == "quick"
    cases = []
    def add(cfg, srv, tag, order=None, **kw):
        order = order or rng.choice("gu")
        cases.append((case_line(cfg, srv, order, rng=rng, **kw), ("c03", tag)))
    base = Config(dom="dom", user="user", pw="password")
    # every boundary of every identifier, both join orders, SSL
    for uid in UID_B:
        for io in ([1003, 1004] if quick else IO_B):
            if io == uid: continue
            for order in "gu":
                add(base, Server(uid=uid, io=io), "ids", order=order)
    for io in IO_B + [1006, 0x7fff, 0x8000]:
        add(base, Server(uid=1007, io=io), "io")
    for sid in V32:
        add(base, Server(rounds=[dict(sid=sid)]), "share")
        add(base, Server(uid=65535, io=1005, rounds=[dict(sid=sid), dict(sid=(sid ^ 0xffffffff))]), "share2")
    for v in VERSIONS:
        for req in (True, False):
            add(base, Server(version=v, requested=req, early=(1 if req else None)), "version")
    for lic in [("valid", 3, b""), ("valid", 0x83, b""), ("valid", 2, b""), ("valid", 0x82, b""), ("valid", 3, b"\x01\x02\x03"), ("new", 3, b"\x00" * 8),
                ("new", 0x83, b""), ("new", 2, bytes(range(40)))]:
        for ls in (0x0080, 0x0280):
            add(base, Server(lic=lic, lic_sec=ls), "lic")
    for blocks in ["csn", "cns", "scn", "snc", "ncs", "nsc"]:
        add(base, Server(blocks=blocks), "blocks")
        add(base, Server(blocks=blocks, io=1007, unknown=[(0x0c04, le16(1008)), (0x0c08, le32(0))]), "blocks+unknown")
    for nr in (0, 1, 2, 3):
        add(base, Server(rounds=[dict() for _ in range(nr)]), "rounds")
        add(base, Server(uid=1001, io=1004, rounds=[dict(caps=()) for _ in range(nr)]), "rounds-nocaps")
    for frag in ("whole", "header", "two", "random", "dribble"):
        add(base, Server(uid=1005, io=1004, rounds=[dict(), dict()]), "frag:" + frag, frag=frag)
    # configurations
    # T.125 connect PDUs are BER: the server may write its lengths in a non-minimal long form
    for form in (2, 3, 4):
        add(base, Server(uid=1006, io=1003, ber_form=form), "ber-long-form")
    for lay in LAYOUTS: add(Config(layout=lay, w=rng.choice(V16), h=rng.choice(V16), name=rstr(rng)), Server(), "layout")
    for (ram, auto, blank, hm) in [(1, 0, 0, 0), (0, 1, 0, 0), (0, 0, 1, 0), (0, 0, 0, 1), (1, 1, 1, 1)]:
        add(Config(ram=bool(ram), auto=bool(auto), blank=bool(blank), hash_mode=bool(hm), dom="D", user="u", pw="p"), Server(), "modes")
    add(Config(check=True, user="u"), Server(), "check-cert")
    # NLA
    for (ram, blank, hm) in [(0, 0, 0), (1, 0, 0), (0, 1, 0), (0, 0, 1)]:
        for uni in (True, False):
            fl = (nlmp.CLIENT_FLAGS | nlmp.NEG_VERSION) if uni else ((nlmp.CLIENT_FLAGS | nlmp.NEG_VERSION) & ~nlmp.NEG_UNICODE)
            c = Config(nla=True, ram=bool(ram), blank=bool(blank), hash_mode=bool(hm), dom="Dom", user="Usér" if uni else "user", pw="pä\U0001F600w" if uni else "pw",
                       rnd=bytes(rng.randrange(256) for _ in range(24)))
            uid = rng.choice(UID_B)
            add(c, Server(sel=2, uid=uid, io=rng.choice([x for x in (1003, 1006) if x != uid])), "nla", nla_chal=default_challenge(rng, fl))
    add(Config(nla=True, dom="d", user="u", pw="p", rnd=bytes(range(24))), Server(sel=1), "nla-offered-ssl-selected")
    # known finding C03-credssp-split: a TSRequest delivered in two TLS records
    add(Config(nla=True, dom="d", user="u", pw="p", rnd=bytes(range(24))), Server(sel=2, uid=1004), "nla-split", cssp_split=True)
    # every prefix of a script: the server stops before reply k
    for (cfg, srv) in [(base, Server(uid=1002, io=1005, rounds=[dict(), dict()])),
                       (Config(nla=True, dom="d", user="u", pw="p", rnd=bytes(range(24))), Server(sel=2, uid=1007))]:
        _, _, nrep = build_script(cfg, srv)
        for k in range(nrep):
            if quick and k > 12 and k % 3: continue
            add(cfg, srv, "cut", cut=k)
    # the Coq specification of the conforming server (coq/RefSequence.v) against the python reference server
    for uid in UID_B:
        for io in (1003, 1005, 1, 65535):
            if io != uid: cases.append((refsrv_line(Server(uid=uid, io=io, neg_flags=rng.choice([0, 1, 0x1f]), src_ref=rng.choice([0, 0x1234])), rng.choice("gu")), ("c03", "refsrv")))
    for _ in range(60 if quick else 600):
        srv = rand_server(rng, rng.choice([1, 2]))
        srv.blocks, srv.unknown, srv.node, srv.tag, srv.extras = "csn", (), 0x79f3, 1, set()
        if srv.lic[0] == "valid": srv.lic = ("valid", srv.lic[1], b"")
        srv.neg_flags, srv.src_ref = rng.choice([0, 1, 8, 0xff]), rng.choice([0, 1, 0xffff, rng.randrange(65536)])
        cases.append((refsrv_line(srv, rng.choice("gu")), ("c03", "refsrv")))
    # random
    for _ in range(1000 if quick else 15000):
        nla = rng.random() < 0.25
        cfg = rand_config(rng, nla)
        sel = 2 if (nla and rng.random() < 0.7) else 1
        srv = rand_server(rng, sel)
        kw = {}
        if rng.random() < 0.15:
            _, _, nrep = build_script(cfg, srv)
            kw["cut"] = rng.randrange(nrep)
        add(cfg, srv, "rand", frag=rng.choice(["whole", "header", "two", "random", "random", "dribble"]), **kw)
    return cases

def classify(line, out):
    if line.startswith("refsrv "): return "refsrv"
    o = parse_out(out)
    if o is None: return out.split(" ")[0]
    res, ev = o
    if res.startswith("err:Asn1@connect"): return "cssp-refused"
    return "%s/%d" % (res.split("@")[0] + ("@" + re.sub(r"\d+", "", res.split("@")[1]) if "@" in res else ""), sum(1 for e in ev if e[:2] in ("r:", "t:")))

def shape(line):
    if line.startswith("refsrv "): return ("refsrv", len(line.split()[12].split(",")))
    cfg, order, nreads, steps = parse_line(line)
    try: srv = decode_server(steps)
    except Exception: return ("?",)
    return (cfg.nla, cfg.ram, cfg.auto, cfg.blank, cfg.hash_mode, order, nreads, srv["sel"], srv["uid"] in UID_B, srv["io"] == 1003, srv["version"] == 0x80004, len(steps))

def nontrivial(line, out):
    if line.startswith("refsrv "): return True
    o = parse_out(out)
    return o is not None and len(o[1]) > 2
from ties import of as _tie_of; TIE_LAYOUTS, TIE_PINS, TIE_ENUMS = _tie_of("C03")   # static-tie lemmas (coq/Gen/Tie) this property depends on
