"""Reference ENCODERS for server-side RDP PDUs (written from MS-RDPBCGR / T.125, independent of
the implementation) used to generate mostly-valid traffic, plus field-fault helpers."""
import struct
from common import *

def le16(v): return struct.pack("<H", v & 0xffff)
def le32(v): return struct.pack("<I", v & 0xffffffff)
def be16(v): return struct.pack(">H", v & 0xffff)

def tpkt(payload, rsv=0):
    return bytes([3, rsv]) + be16(len(payload) + 4) + payload

def x224_data(payload):
    return b"\x02\xf0\x80" + payload

def per_len(n):
    return bytes([n]) if n <= 0x7f else be16(n | 0x8000)

def mcs_sdi(user_payload, uid=1004, chan=1003, initiator=None):
    """MCS send-data-indication: 68 initiator(be16, -1001) channel(be16) 70 perlen data"""
    ini = (uid if initiator is None else initiator) - 1001
    return bytes([26 << 2]) + be16(ini) + be16(chan) + b"\x70" + per_len(len(user_payload)) + user_payload

def slow_frame(user_payload, **kw):
    return tpkt(x224_data(mcs_sdi(user_payload, **kw)))

def share_control(pdu_type, body, source=1002, total=None, with_source=True):
    tl = (len(body) + 6) if total is None else total
    return le16(tl) + le16(pdu_type) + (le16(source) if with_source else b"") + body

def share_data(pdu_type2, payload, share_id=0x000103ea, ulen=None, stream=1):
    ul = (len(payload) + 18) if ulen is None else ulen
    return le32(share_id) + bytes([0, stream]) + le16(ul) + bytes([pdu_type2, 0]) + le16(0) + payload

def data_pdu(pdu_type2, payload, share_id=0x000103ea, **kw):
    return share_control(0x17, share_data(pdu_type2, payload, share_id, **kw))

def capset(t, body, length=None):
    return le16(t) + le16((len(body) + 4) if length is None else length) + body

GENERAL_CAP = capset(1, le16(1) + le16(3) + le16(0x200) + le16(0) + le16(0) + le16(0x041d) + le16(0) + le16(0) + le16(0) + b"\x01\x01")
BITMAP_CAP = capset(2, le16(32) + le16(1) + le16(1) + le16(1) + le16(1024) + le16(768) + le16(0) + le16(1) + le16(1) + b"\x00\x00" + le16(1) + le16(0))
POINTER_CAP = capset(8, le16(1) + le16(25))
INPUT_CAP = capset(13, le16(0x35) + le16(0) + le32(0x409) + le32(4) + le32(0) + le32(12) + bytes(64))
VC_CAP = capset(20, le32(0) + le32(1600))
VC_CAP_SHORT = capset(20, le32(0))
SHARE_CAP = capset(9, le16(1002) + le16(0))       # a set the client does not know
FONT_CAP = capset(14, le16(1) + le16(0))
UNKNOWN_CAP = capset(0x1e, le32(2))
BAD_GENERAL_CAP = capset(1, le16(1) + le16(3) + le16(0x201) + bytes(18))   # protocolVersion check fails (ignored by the client)

def demand_active(share_id=0x000103ea, caps=(GENERAL_CAP, BITMAP_CAP, INPUT_CAP), source=b"RDP\x00", ncaps=None,
                  lsd=None, lcc=None, session_id=True):
    cb = b"".join(caps)
    body = le32(share_id) + le16(len(source) if lsd is None else lsd) + le16((len(cb) + 4) if lcc is None else lcc) + source \
           + le16(len(caps) if ncaps is None else ncaps) + le16(0) + cb + (le32(0) if session_id else b"")
    return share_control(0x11, body)

def deactivate_all(share_id=0x000103ea, source=b"\x00"):
    return share_control(0x16, le32(share_id) + le16(len(source)) + source)

def synchronize(target=1004, share_id=0x000103ea):
    return data_pdu(0x1f, le16(1) + le16(target), share_id)
def control(action, grant=0, ctl=0, share_id=0x000103ea):
    return data_pdu(0x14, le16(action) + le16(grant) + le32(ctl), share_id)
def font_map(share_id=0x000103ea):
    return data_pdu(0x28, le16(0) + le16(0) + le16(3) + le16(4), share_id)
def set_error_info(code=0, share_id=0x000103ea):
    return data_pdu(0x2f, le32(code), share_id)
def unknown_data(t2=0x26, payload=b"\x00\x00\x00\x00", share_id=0x000103ea):
    return data_pdu(t2, payload, share_id)

# ---- fast path
def fp_frame(updates_bytes, action=0, long=None):
    n_short = len(updates_bytes) + 2
    if long is None: long = n_short > 0x7f
    if long:
        n = len(updates_bytes) + 3
        return bytes([action, 0x80 | (n >> 8), n & 255]) + updates_bytes
    return bytes([action, n_short]) + updates_bytes

def fp_update(code, data, frag=0, compression=0, size=None, comp_flags=None):
    hdr = (code & 0xf) | ((frag & 3) << 4) | ((compression & 3) << 6)
    out = bytes([hdr])
    if comp_flags is not None: out += bytes([comp_flags])
    return out + le16(len(data) if size is None else size) + data

def bitmap_rect(l, t, r, b, w, h, bpp, flags, data, hdr=None, blen=None):
    """TS_BITMAP_DATA; with flags&1 and not flags&0x400 a TS_CD_HEADER precedes the data (inside bitmapLength per the spec)"""
    body = data
    if (flags & 1) and not (flags & 0x400):
        h8 = hdr if hdr is not None else (le16(0) + le16(len(data)) + le16(w * 2) + le16(w * h * 2))
        body = h8 + data
    return le16(l) + le16(t) + le16(r) + le16(b) + le16(w) + le16(h) + le16(bpp) + le16(flags) + le16(len(body) if blen is None else blen) + body

def bitmap_update(rects, n=None):
    return le16(1) + le16(len(rects) if n is None else n) + b"".join(rects)

def fp_bitmap(rects, **kw): return fp_update(1, bitmap_update(rects), **kw)
def fp_sync(): return fp_update(3, b"")
def fp_ptr_null(): return fp_update(5, b"")
def fp_ptr_default(): return fp_update(6, b"")
def fp_ptr_pos(x=1, y=2): return fp_update(8, le16(x) + le16(y))
def fp_color(w=1, h=1, xor=b"\x00\x00\x00", andm=b"\x00\x00"):
    return fp_update(9, le16(0) + le32(0) + le16(w) + le16(h) + le16(len(andm)) + le16(len(xor)) + xor + andm + b"\x00")
def fp_unknown(code=7, data=b"\x01\x02"): return fp_update(code, data)

def hexframe(b): return hx(b)
