"""C11: user input transmitted exactly once, in order, with exact values."""
from session import *

RULE = ("after a scripted activation (random user id 1001..65535 except the I/O channel id, random share id): sequences of "
        "1-12 pointer/keyboard events, x / y / scancode over 16-bit boundaries and random values, every button x press "
        "state, strict and lenient write, unsendable event kinds, interleaved with server traffic (error-info, unknown "
        "data PDUs, fast-path updates, deactivate/reactivate with a new share id).  Every emitted frame is decoded by an "
        "independent strict decoder and compared with the submitted event.  Non-trivial = at least one input PDU was "
        "emitted; distinct = distinct (event-kind sequence, traffic pattern, value class).")
TRUSTED_BASE = ["Coq 8.16.1 kernel", "hand-written models coq/Msg.v, coq/LayoutsGlobal.v, coq/Global.v tied to /repo by this correspondence run",
                "coq/RefInput.v (reference encoding, the spec of the theorem)", "extraction + ocaml/session/driver.ml", "Rust harness/src/session.rs + hooks",
                "gen/session.py strict decoder (the oracle)"]
ASSUMPTIONS = ["the transport accepts every write (C14) and delivers whole frames (C13)"]

VALS = [0, 1, 2, 127, 128, 255, 256, 257, 0x7fff, 0x8000, 0x8001, 0xfffe, 0xffff, 0x1234, 0xff00, 0x00ff]

def activation(sid, uid):
    return [R(slow_frame(demand_active(share_id=sid), uid=uid)), R(slow_frame(synchronize(share_id=sid), uid=uid)),
            R(slow_frame(control(4, share_id=sid), uid=uid)), R(slow_frame(control(2, uid, 1002, share_id=sid), uid=uid)),
            R(slow_frame(font_map(share_id=sid), uid=uid))]

def rand_event(rng, exhaustive_idx=None):
    v = lambda: rng.choice(VALS) if rng.random() < 0.6 else rng.randrange(65536)
    t = rng.choice(["P", "P", "K", "TP", "TK"])
    if t in ("P", "TP"):
        return "%s:%d:%d:%d:%d" % (t, v(), v(), rng.randrange(4), rng.randrange(2))
    return "%s:%d:%d" % (t, v(), rng.randrange(2))

def gen_cases(tier, rng):
    quick = tier == "quick"
    cases = []
    def add(steps, uid, sid, sids):
        cases.append((case(steps, uid=uid), ("c11", uid, tuple(sids))))
    # every button x press state x boundary coordinates; every boundary scancode x press state
    uid = 1004; sid = SHARE
    for b in range(4):
        for d in range(2):
            steps = activation(sid, uid)
            for x in VALS[:8]: steps.append("P:%d:%d:%d:%d" % (x, VALS[(VALS.index(x) * 5 + 3) % len(VALS)], b, d))
            add(steps, uid, sid, [sid])
    for d in range(2):
        steps = activation(sid, uid)
        for c in VALS: steps.append("K:%d:%d" % (c, d)); steps.append("TK:%d:%d" % (c ^ 1, d))
        add(steps, uid, sid, [sid])
    # the same event submitted repeatedly (each submission must be transmitted), also across activation
    for ev in ["P:100:200:0:0", "P:0:0:0:0", "P:5:5:1:1", "K:30:1", "TP:7:7:0:0"]:
        steps = ["TP:100:200:0:0", "TP:0:0:0:0"] + activation(sid, uid) + [ev, ev, "P:100:200:0:0", ev, ev, "P:0:0:0:0", "P:0:0:0:0"]
        add(steps, uid, sid, [sid])
    for _ in range(300 if quick else 6000):
        uid = rng.choice([1001, 1002, 1004, 1005, 65535, 65534, rng.randrange(1004, 65536)])
        sid = rng.choice([0, 1, 0xffffffff, 0x80000000, rng.randrange(1 << 32)])
        sids = [sid]
        steps = activation(sid, uid)
        for _ in range(rng.randrange(1, 13)):
            r = rng.random()
            if r < 0.10 and steps and not steps[-1].startswith("R:"): steps.append(steps[-1])
            elif r < 0.60: steps.append(rand_event(rng))
            elif r < 0.66: steps.append(rng.choice(["B", "TB"]))
            elif r < 0.76: steps.append(R(slow_frame(set_error_info(rng.randrange(1 << 32), share_id=sid) + unknown_data(share_id=sid), uid=uid)))
            elif r < 0.86: steps.append(R(fp_frame(fp_ptr_null() + fp_bitmap([bitmap_rect(0, 0, 0, 0, 1, 1, 16, 0, b"\x00\x00")]))))
            elif r < 0.90: steps.append(R(slow_frame(b"\x00\x01", uid=uid)))           # an undecodable PDU
            else:
                # deactivate / reactivate with a fresh share id
                sid = rng.randrange(1 << 32); sids.append(sid)
                steps.append(R(slow_frame(deactivate_all(), uid=uid)))
                steps += activation(sid, uid)
        add(steps, uid, sid, sids)
    return cases

def classify(line, out):
    steps, _ = parse_out(out)
    return ",".join(sorted(set(s[0] for s in steps)))

def shape(line):
    toks = line.split()[6:]
    return tuple(t.split(":")[0] + (t.split(":")[3] + t.split(":")[4] if t[0] in "P" or t.startswith("TP") else "") for t in toks if not t.startswith("R:")) + (len([t for t in toks if t.startswith("R:")]),)

def nontrivial(line, out):
    steps, _ = parse_out(out)
    toks = line.split()[6:]
    return any((not t.startswith("R:")) and s[1] for t, s in zip(toks, steps))

def oracle(line, out, expect):
    steps, _ = parse_out(out)
    for s in steps:
        if s[0] in ("panic", "spin", "crashed"): return "crashed: " + s[0]
    if expect is None: return None
    _, uid, sids = expect
    toks = line.split()[6:]
    if len(steps) != len(toks): return "run stopped early"
    ref = RefAutomaton(); si = -1; cur = None
    for i, (tok, (res, wb, nev, evs)) in enumerate(zip(toks, steps)):
        if wb is None: return "step %d: unexpectedly large output" % i
        if tok.startswith("R:"):
            # track the window with the reference automaton by looking at what kind of frame we generated
            fr = bytes.fromhex(tok[2:])
            l = frame_letter(fr)
            if l == "DA" and ref.i == 0: si += 1; cur = sids[si]
            ref.feed(l, cur)
            continue
        want = expected_input(tok)
        if want is None:
            if wb != b"": return "step %d: unsendable event put bytes on the wire" % i
            if not res.startswith("err:"): return "step %d: unsendable event returned %s" % (i, res)
            continue
        if not ref.window():
            if wb != b"": return "step %d: input outside the window put bytes on the wire" % i
            continue
        try:
            frames = [dec_client_frame(f, uid, cur) for f in split_frames(wb)]
        except Bad as e:
            return "step %d: emitted input PDU malformed: %s" % (i, e)
        except Exception as e:
            return "step %d: emitted bytes do not decode: %r" % (i, e)
        if res != "ok" or frames != [("input", [want])]:
            return "step %d: submitted %s -> result %s, decoded %s; expected exactly one input PDU carrying %s" % (i, tok, res, frames, want)
    return None

def frame_letter(fr):
    """classify a generated server frame (we built it, so a light parse suffices)"""
    if fr[0] != 3: return "FPOTHER"
    try:
        p = fr[4:]
        ud = p[3 + 7:] if not (p[3 + 6] & 0x80) else p[3 + 8:]
        pt = ud[2] | (ud[3] << 8)
        if pt == 0x11: return "DA"
        if pt == 0x16: return "DEACT"
        if pt == 0x17:
            t2 = ud[6 + 8]
            if t2 == 0x1f: return "SYNC"
            if t2 == 0x28: return "FONTMAP"
            if t2 == 0x14:
                a = ud[6 + 12] | (ud[6 + 13] << 8)
                return {4: "COOP", 2: "GRANTED"}.get(a, "CTRLOTHER")
            if t2 == 0x2f: return "SEI"
        return "UNK"
    except IndexError:
        return "UNK"
from ties import of as _tie_of; TIE_LAYOUTS, TIE_PINS, TIE_ENUMS = _tie_of("C11")   # static-tie lemmas (coq/Gen/Tie) this property depends on
