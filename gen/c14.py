"""C14: outbound frames exact and completely delivered, or refused.
Case line:  write <tpkt|x224> <payload_len> <fill_seed> <schedule>   schedule token: k | k*n | F | '.'
Outcome  :  ok|err:<kind>|panic  wrote=<summ of bytes that reached the sink>"""
from common import *

GROUP = "framing"
MODEL_FILES = ["coq/Link.v", "coq/Tpkt.v"]
PROFILES = ["debug", "release"]
RULE = ("HISTORIES of 2-4 writes on one client with an error injected at every byte position of the first frame, retries, refused messages in between; payload lengths 0..70000 (every boundary around the 16-bit frame limit exhaustively), sink schedules: "
        "accept-all, fixed caps 1..n, random caps, zero-length acceptance, an injected error at every call position "
        "(small payloads) and at random positions (large); both tpkt and x224 writers.  Non-trivial = the sink was "
        "asked to take a non-empty frame or the message was refused for size; distinct = (layer, length class, "
        "schedule shape, outcome class).")
TRUSTED_BASE = ["Coq 8.16.1 kernel", "hand-written model coq/Link.v (write_all over a schedule) + coq/Tpkt.v tied to /repo by this correspondence run",
                "extraction (ExtrOcamlBasic only) + ocaml/framing/driver.ml", "Rust harness/src/framing.rs (scheduled adversarial Write)",
                "std::io::Write::write_all contract (retry on short write, WriteZero on 0)"]
ASSUMPTIONS = ["a sink is characterised by the sequence of results of its write calls (accept <= k bytes | error); once the schedule is exhausted it accepts everything",
               "messages handed to tpkt::Client::write serialise completely into memory first (Cursor<Vec>), as Link::write does"]

def ref_write(layer, n, seed, sched):
    """independent reference: what must be on the wire and what must be returned"""
    p = fill(n, seed)
    if layer == "x224": p = b"\x02\xf0\x80" + p
    if layer != "link" and len(p) + 4 > 0xffff:
        return "err:InvalidSize wrote=" + summ(b"")
    frame = p if layer == "link" else bytes([3, 0, (len(p) + 4) >> 8, (len(p) + 4) & 255]) + p
    out = b""; rest = frame; ok = True
    for st in sched:
        if not rest: break
        if st is None or st == 0:
            ok = False; break
        out += rest[:st]; rest = rest[st:]
    else:
        out += rest; rest = b""
    if ok and rest: out += rest
    return ("ok" if ok else "err:Io") + " wrote=" + summ(out)

def ref_writes(layer, msgs, sched):
    """reference for a HISTORY of writes on one client: every write is judged on its own frame; the sink's schedule runs on"""
    res = []; wire = b""; sched = list(sched)
    for (n, seed) in msgs:
        p = fill(n, seed)
        if layer == "x224": p = b"\x02\xf0\x80" + p
        if len(p) + 4 > 0xffff:
            res.append("err:InvalidSize:0"); continue
        rest = bytes([3, 0, (len(p) + 4) >> 8, (len(p) + 4) & 255]) + p
        out = b""; ok = True
        while rest:
            if not sched: out += rest; rest = b""; break
            st = sched.pop(0)
            if st is None or st == 0: ok = False; break
            out += rest[:st]; rest = rest[st:]
        wire += out
        res.append("%s:%d" % ("ok" if ok else "err:Io", len(out)))
    return " ".join(res) + " wrote=" + summ(wire)

def sched_tok(sched_desc):
    return ",".join(sched_desc) if sched_desc else "."

def expand(desc):
    out = []
    for t in desc:
        if t == "F": out.append(None)
        elif "*" in t:
            k, n = t.split("*"); out += [int(k)] * int(n)
        else: out.append(int(t))
    return out

def gen_cases(tier, rng):
    quick = tier == "quick"
    cases = []
    def add(layer, n, seed, desc):
        line = "write %s %d %d %s" % (layer, n, seed, sched_tok(desc))
        cases.append((line, ref_write(layer, n, seed, expand(desc))))
    small = [0, 1, 2, 3, 8, 60, 127, 128, 255, 256]
    for layer in ("tpkt", "x224"):
        # boundaries around the limit, exhaustively
        for n in list(range(65520, 65545)) + [70000, 69999, 65535 * 2]:
            add(layer, n, n % 256, [])
            add(layer, n, 1, ["4096*20"])
        for n in small + [1000, 1499, 1500, 1501, 16384, 32767, 32768, 65000]:
            add(layer, n, 3, [])
        # fixed caps
        for n in small:
            total = n + 4 + (3 if layer == "x224" else 0)
            for cap in range(1, (total + 2) if quick and total < 40 else min(total + 2, 12)):
                add(layer, n, cap, ["%d*%d" % (cap, total // cap + 2)])
            # zero-length acceptance and an error at every call position
            for pos in range(0, min(total, 24) + 1):
                add(layer, n, pos, ["1*%d" % pos, "F"] if pos else ["F"])
                add(layer, n, pos, ["1*%d" % pos, "0"] if pos else ["0"])
                add(layer, n, pos, ["3*%d" % pos, "F", "1000"] if pos else ["F", "7"])
        for n in [1000, 20000, 65531]:
            add(layer, n, 5, ["1*%d" % (n + 10)] if n <= 1000 else ["%d*%d" % (n // 150, 160)])
            add(layer, n, 5, ["1460*100"])
            add(layer, n, 5, ["1460*%d" % rng.randrange(0, n // 1460 + 1), "F"])
            add(layer, n, 5, ["7*%d" % rng.randrange(0, 50), "0"])
        # random schedules
        for _ in range(150 if quick else 4000):
            n = rng.choice(small + [rng.randrange(0, 3000), rng.randrange(0, 70000) if rng.random() < 0.1 else 17])
            desc = []
            for _ in range(rng.randrange(0, 12)):
                r = rng.random()
                if r < 0.08: desc.append("F")
                elif r < 0.14: desc.append("0")
                else: desc.append("%d*%d" % (rng.choice([1, 2, 3, 4, 5, 7, 16, 100, 1460, 5000]), rng.randrange(1, 6)))
            add(layer, n, rng.randrange(256), desc)
    # the link layer itself (CredSSP hands it whole TSRequests): every byte delivered or an error, at ANY length (no 16-bit limit)
    for n in [0, 1, 1500, 65534, 65535, 65536, 65537, 70000, 131072]:
        add("link", n, n % 251, [])
        add("link", n, 1, ["4096*40"])
        add("link", n, 2, ["1000*3", "F"])
    # HISTORIES on one client: a write that fails (or succeeds) must leave nothing behind that a later write emits
    def addh(layer, msgs, desc):
        line = "writes %s %s %s" % (layer, ",".join("%d:%d" % m for m in msgs), sched_tok(desc))
        cases.append((line, ref_writes(layer, msgs, expand(desc))))
    for layer in ("tpkt", "x224"):
        for (a, b) in [(8, 5), (0, 0), (1, 300), (300, 1), (60, 60)]:
            total = a + 4 + (3 if layer == "x224" else 0)
            addh(layer, [(a, 1), (b, 2)], [])
            for pos in range(0, min(total, 14) + 1):
                addh(layer, [(a, 1), (b, 2)], (["1*%d" % pos] if pos else []) + ["F"])             # A fails at byte pos, then B
                addh(layer, [(a, 1), (a, 1)], (["1*%d" % pos] if pos else []) + ["F"])             # A fails, A retried
                addh(layer, [(a, 1), (b, 2), (a, 3)], (["1*%d" % pos] if pos else []) + ["0", "2*3", "F"])
            addh(layer, [(a, 1), (70000, 2), (b, 3)], [])                                          # a refused message in between
            addh(layer, [(a, 1), (b, 2), (a, 3), (b, 4)], ["3*4", "F", "5*2", "F"])
        for _ in range(40 if quick else 1500):
            msgs = [(rng.choice([0, 1, 5, 17, 200, 1500]), rng.randrange(256)) for _ in range(rng.randrange(2, 5))]
            desc = []
            for _ in range(rng.randrange(1, 8)):
                r = rng.random()
                desc.append("F" if r < 0.25 else "0" if r < 0.35 else "%d*%d" % (rng.choice([1, 2, 3, 7, 50, 1460]), rng.randrange(1, 5)))
            addh(layer, msgs, desc)
    if not quick:
        for n in range(0, 70001, 97):
            add("tpkt", n, n % 256, [rng.choice(["1460*60", "4096*3", "65536"])])
    return cases

def classify(line, out):
    return out.split()[0]

def shape(line):
    t = line.split()
    if t[0] == "writes":
        return (t[1], "history%d" % min(len(t[2].split(",")), 4), "fail" if "F" in t[3].split(",") else "nofail")
    n = int(t[2])
    lc = "0" if n == 0 else "small" if n < 300 else "mid" if n < 65000 else "edge" if n < 65540 else "huge"
    sd = t[4]
    sc = ("none" if sd == "." else ("fail" if "F" in sd.split(",") else "") + ("zero" if "0" in sd.split(",") else "") + "caps%d" % min(len(sd.split(",")), 4))
    return (t[1], lc, sc)

def nontrivial(line, out):
    return True

import re as _re
def _nk(s): return _re.sub(r"err:\w+", "err", s)

def oracle(line, out, expect):
    if out.split()[0] in ("panic", "crashed", "spin"):
        return "write crashed: " + out
    # the property demands "an error", not a particular error kind: kinds are compared only by the correspondence
    if expect is not None and _nk(out) != _nk(expect):
        return "expected `%s` (reference framing + write_all contract), implementation returned `%s`" % (expect, out)
    return None
from ties import of as _tie_of; TIE_LAYOUTS, TIE_PINS, TIE_ENUMS = _tie_of("C14")   # static-tie lemmas (coq/Gen/Tie) this property depends on
