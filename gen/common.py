"""helpers shared by the per-property case generators"""
def hx(b):
    return bytes(b).hex() if len(b) else "-"

def fill(n, seed):
    return bytes(((i * 7 + seed) % 256) for i in range(n))

def fnv(b):
    h = 0xcbf29ce484222325
    for x in b:
        h ^= x
        h = (h * 0x100000001b3) & 0xffffffffffffffff
    return "%016x" % h

def summ(b):
    b = bytes(b)
    return "%d:%s:%s" % (len(b), fnv(b), hx(b[:12]))

BOUND16 = [0, 1, 2, 3, 4, 5, 6, 7, 8, 0x7e, 0x7f, 0x80, 0x81, 0xfe, 0xff, 0x100, 0x101, 0x3fff, 0x4000,
           0x7ffe, 0x7fff, 0x8000, 0x8001, 0xfffb, 0xfffc, 0xfffd, 0xfffe, 0xffff]
