"""C18: encoders and decoders are mutually inverse and agree with reference codecs -- generator and oracle.
Case lines (see harness/src/codec18.rs for the SHAPE language):
  msg <written shape> <template shape> <rest hex> <c|o|->   length(), write, read back into the template (+ trailing rest);
                                                            c/o = the generator claims the pair is well formed in a closed/open reader
  rd  <template shape> <input hex>                          read arbitrary bytes into a template
  rw  <template shape> <input hex>                          read, then WRITE what was read, compare with the input (same=0|1)
  per dw<primitive> ..   der dw <template> <hex>   mcs crdw <hex>      decode with the real reader, encode the result with the
                                                            real writer, compare with the input
  per <primitive> <args..>                                  the 22 functions of core/per.rs (w*, r*, rt* = write then read back)
  der <enc|dec|rt> <value>                                  nla/asn1.rs over yasna, from a value description
  mcs <ci|cr> ..  cssp <..> ..                              connect-initial / connect-response / TSRequest family
  gcc18 <req|resp|ver|hdr|ccore> ..                                     conference create request / response, Version::from
The oracle is a set of python reference codecs written from the standards (X.691, X.690, T.124/MS-RDPBCGR) and a
python reference of the message model's generic laws; it knows nothing of the Coq model or of the crate."""
from common import *
import refcodec as R

GROUP = "codec18"
MODEL_FILES = ["coq/Msg.v", "coq/Per.v", "coq/Der.v", "coq/Gcc.v", "coq/Canon.v", "coq/BerYasna.v"]
PROFILES = ["debug", "release"]
RULE = ("random message shapes (depth <= 4, width <= 6, every node kind, Size/SkipIf closures over the closure language) "
        "with random values, written and read back into the emptied shape with and without trailing bytes, plus mutated "
        "(not well-formed) variants and raw reads of damaged bytes; PER: lengths 0..0xffff, integers (u16 exhaustively in "
        "thorough, u32 boundaries and samples), (minimum,value) pairs, object identifiers over a boundary grid, octet and "
        "numeric strings at every length boundary, hostile inputs to every reader; DER: values drawn from the grammar of "
        "shapes used by MCS and CredSSP; GCC: server responses from a python reference encoder (any channel ids, version, "
        "requested protocols, block order, unknown blocks).  The other direction: every PER reader on canonical and on "
        "every kind of non-canonical input (two-octet lengths of small values, non-minimal integers, nibbles above 9, non-zero "
        "pad nibbles, short / non-zero padding), DER / BER variants of the connect response, and random templates read from "
        "well-formed and damaged bytes, each followed by the real writer and a comparison with the input.  Non-trivial = something was written and read back or a reader "
        "returned a value/size error; distinct = (operation, structure signature, outcome class).")
TRUSTED_BASE = ["Coq 8.16.1 kernel (vm_compute for byte-level bit facts in Sweep.v / C18_per_proofs.v)",
                "hand-written models coq/Msg.v (message interpreter), coq/Per.v, coq/Der.v, coq/Gcc.v tied to /repo by this correspondence run",
                "extraction (ExtrOcamlBasic only) + ocaml/codec18/driver.ml (shape parser, dump)",
                "Rust harness/src/codec18.rs (shape parser, boxed wrappers delegating every Message method, closure interpreter)",
                "yasna (external): modelled by coq/Der.v on the DER shapes used, sampled here, not verified",
                "gen/refcodec.py: python reference codecs (encoders and decoders) written from X.691 / X.690 / T.124",
                "coq/Canon.v (canonical-input predicates, slack / tight) and coq/RefPerDec.v (reference PER decoders): definitions the "
                "encode-after-decode theorems are about; extracted and compared with the implementation's own read-then-write on every case"]
ASSUMPTIONS = ["a Rust slice is at most isize::MAX long; `minimum` arguments of the PER string primitives are below 2^63",
               "closures attached to DynOption are drawn from the closure language of Msg.v (every closure in the crate is of that form)",
               "reference codecs: gen/refcodec.py (python) and coq/RefPer.v / coq/RefPerDec.v (Gallina)",
               "encode-after-decode statements are about inputs made of octets (all_bytes) and, for the PER string primitives, minimum < 2^62"]

# ------------------------------------------------------------------------------------------------ message shapes
BV8 = [0, 1, 2, 3, 7, 0x10, 0x20, 0x30, 0x7f, 0x80, 0xfe, 0xff]
BV16 = [0, 1, 2, 4, 6, 18, 0x7f, 0x80, 0xff, 0x100, 0x3ea, 0x7fff, 0x8000, 0xfffe, 0xffff]
BV32 = [0, 1, 4, 0xff, 0x100, 0xffff, 0x10000, 0x80001, 0x80004, 0x7fffffff, 0x80000000, 0xffffffff]

class G:
    """one generated node: written text, template text, bytes, dump after a successful read, dump of the template,
    min_consume (bytes the template certainly consumes), kinds used"""
    def __init__(s, w, t, b, d, td, mc, kinds):
        s.w, s.t, s.b, s.d, s.td, s.mc, s.kinds = w, t, b, d, td, mc, kinds

def enc_num(kind, v):
    if kind == "u8": return bytes([v])
    if kind == "u16l": return v.to_bytes(2, "little")
    if kind == "u16b": return v.to_bytes(2, "big")
    if kind == "u32l": return v.to_bytes(4, "little")
    return v.to_bytes(4, "big")
WIDTH = {"u8": 1, "u16l": 2, "u16b": 2, "u32l": 4, "u32b": 4}
def maxv(kind): return (1 << (8 * WIDTH[kind])) - 1

def pick_val(rng, kind):
    m = maxv(kind)
    pool = BV8 if m == 255 else BV16 if m == 65535 else BV32
    return rng.choice(pool) if rng.random() < 0.5 else rng.randrange(m + 1)

def g_num(rng, kind=None, v=None, tv=None):
    kind = kind or rng.choice(["u8", "u16l", "u16b", "u32l", "u32b"])
    if v is None: v = pick_val(rng, kind)
    if tv is None: tv = 0 if rng.random() < 0.7 else pick_val(rng, kind)
    return G("%s:%d" % (kind, v), "%s:%d" % (kind, tv), enc_num(kind, v), str(v), str(tv), WIDTH[kind], {kind[:3]})

def g_fixed(rng, n=None):
    n = n if n is not None else rng.randrange(1, 9)
    b = bytes(rng.randrange(256) for _ in range(n))
    tb = bytes(n) if rng.random() < 0.7 else bytes(rng.randrange(256) for _ in range(n))
    return G("v:" + hx(b), "v:" + hx(tb), b, "x" + hx(b), "x" + hx(tb), n, {"vfix"})

def g_unsized(rng):
    b = bytes(rng.randrange(256) for _ in range(rng.choice([0, 0, 1, 2, 5, 12])))
    return G("v:" + hx(b), "v:-", b, "x" + hx(b), "x-", 0, {"vend"})

def g_check(rng):
    if rng.random() < 0.75:
        kind = rng.choice(["u8", "u16l", "u16b", "u32l", "u32b"]); v = pick_val(rng, kind)
        s = "%s:%d" % (kind, v)
        return G("k(%s)" % s, "k(%s)" % s, enc_num(kind, v), str(v), str(v), WIDTH[kind], {"check"})
    n = rng.randrange(1, 5); b = bytes(rng.randrange(256) for _ in range(n))
    return G("k(v:%s)" % hx(b), "k(v:%s)" % hx(b), b, "x" + hx(b), "x" + hx(b), n, {"checkv"})

_claim = [True]
_names = 0
def fresh(rng):
    global _names
    _names += 1
    return "%s%d" % (rng.choice("fghpqrs"), _names % 100000)

CEXP_FORMS = ["x", "x", "x-", "x_", "x+", "x*"]

def size_field(rng, target, L, allow_u32=True):
    """a numeric field whose Size closure announces exactly L bytes for `target`; returns G or None"""
    form = rng.choice(CEXP_FORMS)
    k = rng.choice([1, 2, 4, 6, 18])
    kinds = ["u8", "u16l", "u16b"] + (["u32l", "u32b"] if allow_u32 else [])
    kind = rng.choice(kinds)
    if form == "x": v, txt = L, "x"
    elif form == "x-": v, txt = L + k, "x-%d" % k
    elif form == "x_": v, txt = L + k, "x_%d" % k
    elif form == "x+":
        if L < k: v, txt = L, "x"
        else: v, txt = L - k, "x+%d" % k
    else:
        k = rng.choice([1, 2, 3, 4])
        if L % k: v, txt = L, "x"
        else: v, txt = L // k, "x*%d" % k
    if v > maxv(kind): kind = "u16l" if v <= 65535 else "u32l"
    if v > maxv(kind): return None
    if rng.random() < 0.15:
        # the closure reads a field of a component (XSelfField)
        fn = fresh(rng); other = g_num(rng, "u8")
        inner_w = "c(a%s=%s,%s=%s:%d)" % (fn, other.w, fn, kind, v)
        inner_t = "c(a%s=%s,%s=%s:0)" % (fn, other.t, fn, kind)
        txt2 = "f" + fn + txt[1:]
        return G("d(z%s~%s;%s)" % (target, txt2, inner_w), "d(z%s~%s;%s)" % (target, txt2, inner_t),
                 other.b + enc_num(kind, v), "{a%s=%s,%s=%d}" % (fn, other.d, fn, v), "{a%s=%s,%s=0}" % (fn, other.td, fn),
                 1 + WIDTH[kind], {"size", "selffield", form})
    return G("d(z%s~%s;%s:%d)" % (target, txt, kind, v), "d(z%s~%s;%s:0)" % (target, txt, kind),
             enc_num(kind, v), str(v), "0", WIDTH[kind], {"size", form})

def rand_cond(rng, depth=0):
    r = rng.random()
    if depth >= 2 or r < 0.6:
        sh = rng.choice([0, 0, 1, 4, 7]); mask = rng.choice([1, 2, 3, 0xff, 1024]); val = rng.choice([0, 0, 1, 2])
        return "b%d.%d.%d" % (sh, mask, val)
    if r < 0.75: return "!(%s)" % rand_cond(rng, depth + 1)
    if r < 0.9: return "|(%s,%s)" % (rand_cond(rng, depth + 1), rand_cond(rng, depth + 1))
    return "&(%s,%s)" % (rand_cond(rng, depth + 1), rand_cond(rng, depth + 1))

def eval_cond(c, v):
    """python reading of the condition language (independent of both implementations)"""
    pos = [0]
    def go():
        ch = c[pos[0]]
        if ch == "b":
            j = pos[0] + 1; k = j
            while k < len(c) and (c[k].isdigit() or c[k] == "."): k += 1
            sh, mask, val = [int(x) for x in c[j:k].split(".")]
            pos[0] = k
            return ((v >> sh) & mask) == val
        if ch == "!":
            pos[0] += 2; r = go(); pos[0] += 1; return not r
        pos[0] += 2; a = go(); pos[0] += 1; b = go(); pos[0] += 1
        return (a or b) if ch == "|" else (a and b)
    return go()

def g_leaf(rng, closed):
    r = rng.random()
    if r < 0.55: return g_num(rng)
    if r < 0.75: return g_fixed(rng)
    if r < 0.87: return g_check(rng)
    if closed: return g_unsized(rng)
    return g_num(rng)

def g_elem_template(rng, depth):
    """a self-delimiting element that consumes at least one byte: (maker of instances)"""
    r = rng.random()
    if r < 0.35 or depth <= 0:
        kind = rng.choice(["u8", "u16l", "u16b", "u32l"])
        return lambda: g_num(rng, kind, None, 0)
    if r < 0.5:
        c = g_check(rng)
        return lambda: c
    # component: a numeric head, then a sized tail and/or plain fields
    n1, n2, n3 = fresh(rng), fresh(rng), fresh(rng)
    kind = rng.choice(["u8", "u16l"])
    with_size = rng.random() < 0.6
    tailkind = rng.choice(["u16b", "u8"])
    def mk():
        if with_size:
            body = g_unsized(rng)
            sf = G("d(z%s~x;u16l:%d)" % (n2, len(body.b)), "d(z%s~x;u16l:0)" % n2, enc_num("u16l", len(body.b)), str(len(body.b)), "0", 2, {"size", "x"})
            tail = g_num(rng, tailkind, None, 0)
            return G("c(%s=%s,%s=%s,%s=%s)" % (n1, sf.w, n2, body.w, n3, tail.w), "c(%s=%s,%s=%s,%s=%s)" % (n1, sf.t, n2, body.t, n3, tail.t),
                     sf.b + body.b + tail.b, "{%s=%s,%s=%s,%s=%s}" % (n1, sf.d, n2, body.d, n3, tail.d), "", 2, {"comp", "size", "vend"})
        a = g_num(rng, kind, None, 0); b = g_num(rng, tailkind, None, 0)
        return G("c(%s=%s,%s=%s)" % (n1, a.w, n3, b.w), "c(%s=%s,%s=%s)" % (n1, a.t, n3, b.t), a.b + b.b,
                 "{%s=%s,%s=%s}" % (n1, a.d, n3, b.d), "", a.mc + b.mc, {"comp"})
    return mk

def g_array(rng, depth):
    mk = g_elem_template(rng, depth - 1)
    n = rng.choice([0, 1, 2, 3, 4])
    els = [mk() for _ in range(n)]
    tmpl = mk().t
    return G("A(%s)" % ",".join(e.w for e in els), "a(%s)" % tmpl, b"".join(e.b for e in els),
             "[%s]" % ",".join(e.d for e in els), "[]", 0, set().union({"array"}, *[e.kinds for e in els]))

def g_node(rng, depth, closed, width=6):
    """a well-formed (written, template) pair; closed = nothing follows its bytes in the reader"""
    r = rng.random()
    if depth <= 0 or r < 0.25: return g_leaf(rng, closed)
    if r < 0.33:
        inner = g_node(rng, depth - 1, closed, width)
        return G("d(n;%s)" % inner.w, "d(n;%s)" % inner.t, inner.b, inner.d, inner.td, inner.mc, inner.kinds | {"dyn"})
    if r < 0.43:
        q = rng.random()
        if q < 0.6:
            inner = g_node(rng, depth - 1, closed, width)
            return G("o(%s)" % inner.w, "o(%s)" % inner.t, inner.b, inner.d, inner.td, 0, inner.kinds | {"some"})
        if q < 0.8 or not closed:
            return G("o()", "o()", b"", "~", "~", 0, {"none"})
        inner = g_num(rng)          # absent trailing option: the template fails cleanly at end of input
        return G("o()", "o(%s)" % inner.t, b"", "~", inner.td, 0, {"absent"})
    if r < 0.5 and closed:
        return g_array(rng, depth)
    if r < 0.62:
        n = rng.randrange(0, width + 1)
        ch = [g_node(rng, depth - 1, closed and i == n - 1, width) for i in range(n)]
        return G("t(%s)" % ",".join(c.w for c in ch), "t(%s)" % ",".join(c.t for c in ch), b"".join(c.b for c in ch),
                 "[%s]" % ",".join(c.d for c in ch), "[%s]" % ",".join(c.td for c in ch), sum(c.mc for c in ch),
                 set().union({"trame"}, *[c.kinds for c in ch]))
    return g_comp(rng, depth, closed, width)

def chain_fields(rng, fields, kinds, n, mk_target, force=None, tvals=None):
    """appends n flag fields and a final target to `fields`.  Flag i carries a closure that (when its condition holds on
    the flag's value) skips field i+1 -- which may itself be a flag: a SKIPPED flag is absent from the wire and its own
    closure must not be consulted by write / length / read.  Variants: a flag naming ITSELF (no effect), a flag whose
    closure would SIZE the next field (fixed-size block, so the field reads the same with or without the size).
    force = per-flag booleans (condition satisfied on the written value), tvals = per-flag template-value satisfies?"""
    names = [fresh(rng) for _ in range(n + 1)]
    skip = set()
    sized_len = None
    for i in range(n):
        kind = rng.choice(["u8", "u16l", "u32l"])
        form = rng.random()
        me, nxt = names[i], names[i + 1]
        skipped_me = me in skip
        if form < 0.12:
            target_name, is_size = me, False          # names its own field
        elif form < 0.27 and i == n - 1:
            target_name, is_size = nxt, True          # would size the final target
        else:
            target_name, is_size = nxt, False
        if is_size:
            sized_len = rng.randrange(1, 7)
            v = sized_len if (not skipped_me or rng.random() < 0.5) else rng.choice([0, 1, 9, 200])   # wrong size only where it is dead
            tv = rng.choice([0, sized_len, 3])
            w = "d(z%s~x;%s:%d)" % (target_name, kind, v); t = "d(z%s~x;%s:%d)" % (target_name, kind, tv)
            fired = False
        else:
            want = force[i] if force else (rng.random() < 0.5)
            twant = tvals[i] if tvals else (rng.random() < 0.5)
            cond = rand_cond(rng)
            v = tv = None
            for _ in range(60):
                c = pick_val(rng, kind)
                if v is None and eval_cond(cond, c) == want: v = c
                if tv is None and eval_cond(cond, c) == twant: tv = c
                if v is not None and tv is not None: break
            if v is None or tv is None:
                cond = "b0.1.1"; v = (2 | (1 if want else 0)); tv = (4 | (1 if twant else 0))
            w = "d(s%s~%s;%s:%d)" % (target_name, cond, kind, v); t = "d(s%s~%s;%s:%d)" % (target_name, cond, kind, tv)
            fired = eval_cond(cond, v)
        g = G(w, t, enc_num(kind, v), str(v), str(tv), WIDTH[kind], {"skipif", "chain%d" % n})
        if skipped_me:
            if rng.random() < 0.5: g = G(g.t, g.t, b"", g.td, g.td, g.mc, g.kinds)
            else: _claim[0] = False
            kinds |= {"skippedflag"}
        elif fired and not is_size and target_name != me:
            skip.add(target_name)
        fields.append((me, g, skipped_me))
    last = names[n]
    if sized_len is not None:
        target = g_fixed(rng, sized_len)
    else:
        target = mk_target()
    skipped = last in skip
    if skipped:
        if rng.random() < 0.5: target = G(target.t, target.t, target.b, target.td, target.td, target.mc, target.kinds)
        else: _claim[0] = False
    fields.append((last, target, skipped))
    kinds |= {"skipped" if skipped else "notskipped"}

def g_comp(rng, depth, closed, width):
    """fields in groups: plain | size field .. sized target | flag field + skippable target"""
    groups = []
    budget = rng.randrange(0, width + 1)
    while budget > 0:
        r = rng.random()
        if r < 0.5 or budget < 2:
            groups.append(("plain",)); budget -= 1
        elif r < 0.8:
            between = 1 if (budget >= 3 and rng.random() < 0.3) else 0
            groups.append(("sized", between)); budget -= 2 + between
        else:
            # a chain of 1-3 flag fields, each able to skip the next field, then a final target
            n = 1 if budget < 3 else rng.choice([1, 1, 2, 2, 3]) if budget >= 4 else rng.choice([1, 2])
            groups.append(("skip", n)); budget -= n + 1
    fields = []      # (name, G, skipped?)
    kinds = {"comp"}
    for gi, grp in enumerate(groups):
        last_group = gi == len(groups) - 1
        if grp[0] == "plain":
            fields.append((fresh(rng), g_node(rng, depth - 1, closed and last_group, width), False))
        elif grp[0] == "sized":
            tname = fresh(rng)
            target = g_node(rng, depth - 1, True, width)
            sf = size_field(rng, tname, len(target.b))
            if sf is None:
                fields.append((tname, g_num(rng), False)); continue
            fields.append((fresh(rng), sf, False))
            for _ in range(grp[1]):
                fields.append((fresh(rng), g_node(rng, depth - 1, False, width), False))
            fields.append((tname, target, False))
            kinds |= {"sized"}
        else:
            chain_fields(rng, fields, kinds, grp[1], lambda: g_node(rng, depth - 1, False, width))
    w = "c(%s)" % ",".join("%s=%s" % (n, g.w) for (n, g, s) in fields)
    t = "c(%s)" % ",".join("%s=%s" % (n, g.t) for (n, g, s) in fields)
    b = b"".join(g.b for (n, g, s) in fields if not s)
    d = "{%s}" % ",".join("%s=%s" % (n, g.td if s else g.d) for (n, g, s) in fields)
    td = "{%s}" % ",".join("%s=%s" % (n, g.td) for (n, g, s) in fields)
    return G(w, t, b, d, td, 0, set().union(kinds, *[g.kinds for (n, g, s) in fields]))

import re
def mutate_text(rng, w):
    """change one number of the written shape to a boundary value (may break a size, a check, a range)"""
    nums = list(re.finditer(r"(u8|u16[lb]|u32[lb]):(\d+)", w))
    if not nums: return None
    # every other time aim at the value a Size closure subtracts from (the underflow the closures of the crate had)
    subs = list(re.finditer(r"~x[-_](\d+);(u8|u16[lb]):(\d+)", w))
    if subs and rng.random() < 0.5:
        m = rng.choice(subs); k = int(m.group(1))
        nv = rng.choice([0, max(0, k - 1), k, k + 1])
        return w[:m.start(3)] + str(min(nv, maxv(m.group(2)))) + w[m.end(3):]
    m = rng.choice(nums)
    kind = m.group(1)
    cap = min(maxv(kind), 1 << 16)           # sizes stay small enough for the model's unary `take`
    nv = rng.choice([0, 1, 2, 3, 5, 6, 17, 18, 255, 256, 65535, 1 << 16, int(m.group(2)) + 1, max(0, int(m.group(2)) - 1)])
    nv = min(nv, cap)
    return w[:m.start(2)] + str(nv) + w[m.end(2):]

def has_big_size(t):
    return bool(re.search(r"d\(z[^;]*;(u32|c\()", t))

def chain_cases(tier, rng):
    """systematic skip chains (both tiers): every combination of satisfied / unsatisfied conditions along a chain of
    1-3 flag fields, on the WRITTEN value and on the TEMPLATE value, with self-naming and would-size closures mixed in;
    a skipped flag is absent from the wire and must not influence write(), length() or read()"""
    import itertools
    out = []
    reps = 3 if tier == "quick" else 40
    for n in (1, 2, 3):
        for force in itertools.product([False, True], repeat=n):
            for tvals in itertools.product([False, True], repeat=n):
                for _ in range(reps):
                    _claim[0] = True
                    fields = []; kinds = {"comp"}
                    if rng.random() < 0.7: fields.append((fresh(rng), g_num(rng), False))
                    chain_fields(rng, fields, kinds, n, lambda: g_leaf(rng, False), list(force), list(tvals))
                    for _ in range(rng.choice([0, 1, 2])): fields.append((fresh(rng), g_leaf(rng, False), False))
                    w = "c(%s)" % ",".join("%s=%s" % (nm, g.w) for (nm, g, sk) in fields)
                    t = "c(%s)" % ",".join("%s=%s" % (nm, g.t) for (nm, g, sk) in fields)
                    b = b"".join(g.b for (nm, g, sk) in fields if not sk)
                    d = "{%s}" % ",".join("%s=%s" % (nm, g.td if sk else g.d) for (nm, g, sk) in fields)
                    if rng.random() < 0.3:      # nested: the record is an element of a trame
                        pre = g_num(rng)
                        w, t, b, d = "t(%s,%s)" % (pre.w, w), "t(%s,%s)" % (pre.t, t), pre.b + b, "[%s,%s]" % (pre.d, d)
                    rest = bytes(rng.randrange(256) for _ in range(rng.choice([0, 2])))
                    exp = "len=%d w=%s r=ok consumed=%d val=%s" % (len(b), hx(b), len(b), d)
                    out.append(("msg %s %s %s %s" % (w, t, hx(rest), "o" if _claim[0] else "-"), exp))
    return out

def double_size_cases(tier, rng):
    """two (or three) fields announce the size of the SAME later field: Component::read keeps the LAST announcement (the
    crate's ts_bitmap_data: bitmapLength, then bitmapComprHdr); the earlier ones announce other lengths"""
    out = []
    for _ in range(60 if tier == "quick" else 3000):
        _claim[0] = True
        tname = fresh(rng)
        body = g_unsized(rng)
        L = len(body.b)
        fields = []
        for wrong in [rng.choice([0, 1, L + 1, L + 5, 2 * L + 3, max(0, L - 1)]) for _ in range(rng.choice([1, 1, 2]))]:
            sf = size_field(rng, tname, wrong, allow_u32=False)
            if sf is not None: fields.append((fresh(rng), sf))
        last = G("d(z%s~x;u16l:%d)" % (tname, L), "d(z%s~x;u16l:0)" % tname, enc_num("u16l", L), str(L), "0", 2, {"size", "x"})
        fields.append((fresh(rng), last))
        if rng.random() < 0.5: fields.insert(rng.randrange(len(fields) + 1), (fresh(rng), g_num(rng)))
        fields.append((tname, body))
        tail = g_num(rng)
        fields.append((fresh(rng), tail))
        w = "c(%s)" % ",".join("%s=%s" % (nm, g.w) for (nm, g) in fields)
        t = "c(%s)" % ",".join("%s=%s" % (nm, g.t) for (nm, g) in fields)
        b = b"".join(g.b for (nm, g) in fields)
        d = "{%s}" % ",".join("%s=%s" % (nm, g.d) for (nm, g) in fields)
        rest = bytes(rng.randrange(256) for _ in range(rng.choice([0, 3])))
        exp = "len=%d w=%s r=ok consumed=%d val=%s" % (len(b), hx(b), len(b), d)
        out.append(("msg %s %s %s -" % (w, t, hx(rest)), exp))
    return out

def msg_cases(tier, rng):
    n = 10000 if tier == "quick" else 1000000
    out = []
    for i in range(n):
        depth = rng.choice([1, 2, 2, 3, 3, 4])
        closed = rng.random() < 0.5
        _claim[0] = True
        g = g_node(rng, depth, closed)
        if len(g.w) > 6000: continue
        rest = b"" if closed else bytes(rng.randrange(256) for _ in range(rng.choice([0, 1, 3, 8])))
        exp = "len=%d w=%s r=ok consumed=%d val=%s" % (len(g.b), hx(g.b), len(g.b), g.d)
        out.append(("msg %s %s %s %s" % (g.w, g.t, hx(rest), ("c" if closed else "o") if _claim[0] else "-"), exp))
        r = rng.random()
        if r < 0.25 and not has_big_size(g.t):
            mw = mutate_text(rng, g.w)
            if mw: out.append(("msg %s %s %s -" % (mw, g.t, hx(rest)), None))
        elif r < 0.45 and not has_big_size(g.t):
            data = bytearray(g.b + rest)
            q = rng.random()
            if q < 0.4 and data: data = data[:rng.randrange(len(data))]
            elif q < 0.8 and data: data[rng.randrange(len(data))] = rng.choice([0, 1, 3, 5, 17, 0x7f, 0x80, 0xff])
            else: data += bytes(rng.randrange(256) for _ in range(rng.randrange(1, 6)))
            out.append(("rd %s %s" % (g.t, hx(bytes(data))), None))
    return out

# ------------------------------------------------------------------------------------------------ PER
T124_OID = bytes([0, 0, 20, 124, 0, 1])

def per_cases(tier, rng):
    quick = tier == "quick"
    cs = []
    def rt_len(n):
        e = R.per_length(n)
        cs.append(("per rtlen %d" % n, None if e is None else "w=ok:%s r=ok:%d:rest=1" % (hx(e), n)))
    lens = sorted(set(BOUND16 + [0x3ffe, 0x4001, 127, 128, 129, 255, 256, 257] + [rng.randrange(0x8000) for _ in range(300)])) if quick else range(0x10000)
    for n in lens: rt_len(n)
    for b in range(256):
        cs.append(("per rlen %02x" % b, ("ok:%d:rest=0" % b) if b < 128 else "err:Io"))
        cs.append(("per rlen %02x%02x77" % (b, (b * 37) % 256), ("ok:%d:rest=2" % b) if b < 128 else "ok:%d:rest=1" % (((b & 0x7f) << 8) | ((b * 37) % 256))))
    cs.append(("per rlen -", "err:Io"))
    # integers
    def rt_int(n):
        e = R.per_integer(n)
        cs.append(("per rtint %d" % n, "w=ok:%s r=ok:%d:rest=1" % (hx(e), n)))
    ib = set()
    for k in [8, 16, 24, 31, 32]:
        for d in (-2, -1, 0, 1, 2):
            v = (1 << k) + d
            if 0 <= v < (1 << 32): ib.add(v)
    ib |= {0, 1, 2, 127, 128, 254, 255, 256, 65534, 65535, 65536, 0x80001, 0x80004}
    ints = sorted(ib | set(rng.randrange(1 << 32) for _ in range(1500)) | set(rng.randrange(1 << 16) for _ in range(500))) if quick else \
           sorted(ib | set(range(1 << 16)) | set(rng.randrange(1 << 32) for _ in range(100000)))
    for n in ints: rt_int(n)
    for size in list(range(0, 8)) + [0x7f, 0x80, 0x81, 0xff]:
        for body in [b"", b"\x01", b"\x01\x02", b"\x01\x02\x03", b"\x01\x02\x03\x04", b"\x01\x02\x03\x04\x05"]:
            data = bytes([size]) + body
            exp = None
            if size in (1, 2, 4):
                exp = ("ok:%d:rest=%d" % (int.from_bytes(body[:size], "big"), len(body) - size)) if len(body) >= size else "err:Io"
            elif size < 0x80: exp = "err:InvalidSize"
            cs.append(("per rint " + hx(data), exp))
    # integer_16: (value, minimum) pairs
    pairs = set()
    bv = [0, 1, 2, 1000, 1001, 1002, 1003, 1004, 0x7fff, 0x8000, 0xfffe, 0xffff]
    for v in bv:
        for m in bv: pairs.add((v, m))
    for _ in range(300 if quick else 20000): pairs.add((rng.randrange(65536), rng.randrange(65536)))
    for (v, m) in sorted(pairs):
        if v >= m:
            cs.append(("per rtint16 %d %d" % (v, m), "w=ok:%s r=ok:%d:rest=1" % (hx((v - m).to_bytes(2, "big")), v)))
        else:
            cs.append(("per rtint16 %d %d" % (v, m), None))        # below the minimum: debug traps, release wraps (modelled)
    for (raw, m) in [(0, 0), (3, 1001), (64534, 1001), (64535, 1001), (65535, 1), (65535, 0), (65535, 65535), (1, 65535), (0, 65535)]:
        exp = ("ok:%d:rest=1" % (raw + m)) if raw + m <= 65535 else "err:InvalidSize"
        cs.append(("per rint16 %d %s" % (m, hx(raw.to_bytes(2, "big") + b"\x55")), exp))
    cs.append(("per rint16 5 01", "err:Io"))
    # object identifiers
    oids = set()
    grid0 = [0, 1, 2, 3, 255]; grid1 = [0, 1, 15, 16, 39, 40, 255]; gridn = [0, 1, 20, 124, 127, 128, 255]
    for i in range(6):
        for v in (grid0 if i == 0 else grid1 if i == 1 else gridn):
            o = bytearray(T124_OID); o[i] = v; oids.add(bytes(o))
            o2 = bytearray([1, 2, 3, 4, 5, 6]); o2[i] = v; oids.add(bytes(o2))
    if quick:
        for _ in range(400): oids.add(bytes([rng.choice(grid0), rng.choice(grid1)] + [rng.choice(gridn) for _ in range(4)]))
    else:
        for a0 in [0, 1, 2, 3]:
            for a1 in [0, 39, 40, 255]:
                for a2 in [0, 127, 128, 255]:
                    for a3 in [0, 127, 128, 255]:
                        for a4 in [0, 127, 128, 255]:
                            for a5 in [0, 127, 128, 255]: oids.add(bytes([a0, a1, a2, a3, a4, a5]))
        for _ in range(20000): oids.add(bytes(rng.randrange(256) for _ in range(6)))
    for o in sorted(oids):
        e = R.per_oid(list(o))
        cs.append(("per rtoid " + hx(o), "w=err:InvalidData" if e is None else "w=ok:%s r=ok:true:rest=1" % hx(e)))
        if e is not None:
            # the decoder tells a neighbour apart: one arc changed in the EXPECTED identifier
            i = rng.randrange(6); o2 = bytearray(o); o2[i] = (o2[i] + 1 + rng.randrange(3)) % 256
            cs.append(("per roid %s %s" % (hx(bytes(o2)), hx(e)), "ok:false:rest=0"))
    for i in range(6):     # every arc matters (defect 19: the fifth arc was never compared)
        o2 = bytearray(T124_OID); o2[i] ^= 1
        cs.append(("per roid %s %s" % (hx(bytes(o2)), hx(R.per_oid(list(T124_OID)))), "ok:false:rest=0"))
    for l in [b"", b"\x00", b"\x00\x01\x02\x03\x04", b"\x00\x01\x02\x03\x04\x05\x06"]:
        cs.append(("per woid " + hx(l), "err:InvalidSize"))
        cs.append(("per roid %s 0500147c0001" % hx(l), "err:InvalidSize"))
    for data in [b"", b"\x05", b"\x05\x00\x14\x7c\x00", b"\x04\x00\x14\x7c\x00\x01", b"\x06\x00\x14\x7c\x00\x01\x00", b"\x80\x05\x00\x14\x7c\x00\x01", b"\x85"]:
        cs.append(("per roid %s %s" % (hx(T124_OID), hx(data)), None))
    # octet strings at every length boundary, minimum 0 / 4 / other
    olens = [0, 1, 2, 3, 4, 5, 8, 126, 127, 128, 129, 130, 131, 132, 133, 255, 256, 300]
    if not quick: olens += [16383, 16384, 16385, 32766, 32767, 32768, 32769, 32771, 32772]
    else: olens += [16384, 32767, 32768]
    for n in olens:
        for m in [0, 4, 1, 131]:
            s = bytes((i * 13 + n) % 256 for i in range(n))
            e = R.per_octet_string(s, m)
            cs.append(("per rtoct %s %d" % (hx(s), m), None if e is None else "w=ok:%s r=ok:-:rest=1" % hx(e)))
    for (s, exp_s, m, tail) in [(b"Duca", b"Duca", 4, b""), (b"Duca", b"McDn", 4, b""), (b"McDn", b"McDn", 4, b"\x09"), (b"abc", b"abcd", 0, b""), (b"abcd", b"abc", 0, b""),
                                (b"abc", b"abd", 0, b""), (b"", b"", 0, b"\x01")]:
        e = R.per_octet_string(s, m)
        if s == exp_s: exp = "ok:-:rest=%d" % len(tail)
        elif len(s) != len(exp_s): exp = "err:InvalidSize"
        else: exp = "err:InvalidData"
        cs.append(("per roct %s %d %s" % (hx(exp_s), m, hx(e + tail)), exp))
    cs.append(("per roct 4142 0 0241", "err:Io"))
    cs.append(("per roct 4142 0 -", "err:Io"))
    # numeric strings
    nlens = list(range(0, 12)) + [126, 127, 128, 129, 130, 255, 256, 257]
    if not quick: nlens += [1000, 16383, 16384, 32767, 32768, 32769]
    for n in nlens:
        for m in [0, 1, 2]:
            s = bytes(0x30 + rng.randrange(10) for _ in range(n))
            e = R.per_numeric_string(s, m)
            cs.append(("per rtnum %s %d" % (hx(s), m), None if e is None else "w=ok:%s r=ok:%s:rest=1" % (hx(e), hx(s))))
    cs.append(("per rtnum 31 1", "w=ok:0010 r=ok:31:rest=1"))
    for s in [b"1a", b"/", b":", b"\x00", b"\xff9"]: cs.append(("per wnum %s 0" % hx(s), None))
    for data in [b"", b"\x00", b"\x01", b"\x01\x12", b"\x02\x12", b"\x02\x12\x34", b"\x80", b"\x80\x03\x12\x34", b"\x03\xab\xcd\xef"]:
        for m in [0, 1]: cs.append(("per rnum %d %s" % (m, hx(data)), None))
    # padding
    for n in [0, 1, 2, 7, 100]:
        cs.append(("per wpad %d" % n, "ok:" + hx(bytes(n))))
        for have in [0, 1, n, n + 2]:
            cs.append(("per rpad %d %s" % (n, hx(bytes(range(have)))), "ok:-:rest=%d" % max(0, have - n)))
    # one-octet primitives: every value
    for v in range(256):
        for (wop, rop) in [("wchoice", "rchoice"), ("wsel", "rsel"), ("wnset", "rnset"), ("wenum", "renum")]:
            cs.append(("per %s %d" % (wop, v), "ok:%02x" % v))
            cs.append(("per %s %02x" % (rop, v), "ok:%d:rest=0" % v))
    for rop in ["rchoice", "rsel", "rnset", "renum"]: cs.append(("per %s -" % rop, "err:Io"))
    return cs

# ------------------------------------------------------------------------------------------------ DER
DINT = [0, 1, 2, 127, 128, 255, 256, 32767, 32768, 65535, 65536, 0x7fffff, 0x800000, 0xffffff, 0x1000000, 0x7fffffff, 0x80000000, 0xffffffff]
DENUM = [0, 1, 2, 127, 128, 255, 256, 65535, 0x7fffffff, 0x80000000, 0xffffffff, 0x100000000, (1 << 62) - 1]
DTAGS = [0, 1, 2, 3, 30, 31, 32, 101, 102, 127, 128, 255, 16383, 16384]
OLENS = [0, 1, 2, 5, 126, 127, 128, 129, 255, 256, 257, 1000]

def rand_schema(rng, depth):
    r = rng.random()
    if depth <= 0 or r < 0.45:
        return (rng.choice(["int", "int", "enum", "bool", "oct", "oct"]),)
    if r < 0.65: return ("seq", [rand_schema(rng, depth - 1) for _ in range(rng.randrange(0, 5))])
    if r < 0.78: return ("seqof", rand_schema(rng, depth - 1))
    if r < 0.93: return ("exp", rng.choice("CCCAP"), rng.choice(DTAGS), rand_schema(rng, depth - 1))
    return ("imp", rng.choice("CAAP"), rng.choice(DTAGS), rand_schema(rng, depth - 1))

def inst(rng, sch, zero=False):
    k = sch[0]
    if k == "int": return ("int", 0 if zero else (rng.choice(DINT) if rng.random() < 0.6 else rng.randrange(1 << 32)))
    if k == "enum": return ("enum", 0 if zero else (rng.choice(DENUM) if rng.random() < 0.6 else rng.randrange(1 << 40)))
    if k == "bool": return ("bool", False if zero else rng.random() < 0.5)
    if k == "oct":
        if zero: return ("oct", b"")
        n = rng.choice(OLENS) if rng.random() < 0.3 else rng.randrange(0, 12)
        return ("oct", bytes(rng.randrange(256) for _ in range(n)))
    if k == "seq": return ("seq", [inst(rng, x, zero) for x in sch[1]])
    if k == "seqof": return ("seqof", [inst(rng, sch[1], zero) for _ in range(1 if zero else rng.choice([0, 1, 1, 2, 3]))])
    return (k, sch[1], sch[2], inst(rng, sch[3], zero))

def dump_dval(v):
    k = v[0]
    if k == "int": return "i%d" % v[1]
    if k == "enum": return "e%d" % v[1]
    if k == "bool": return "b%d" % (1 if v[1] else 0)
    if k == "oct": return "o" + hx(v[1])
    if k == "seq": return "s(%s)" % ",".join(dump_dval(x) for x in v[1])
    if k == "seqof": return "q(%s)" % ",".join(dump_dval(x) for x in v[1])
    return dump_dval(v[3])

def dtext(v):
    return R.der_text(v).replace("o,", "o-,").replace("o)", "o-)") if False else _dtext(v)
def _dtext(v):
    k = v[0]
    if k == "oct": return "o" + hx(v[1])
    if k in ("seq", "seqof"): return ("s" if k == "seq" else "q") + "(%s)" % ",".join(_dtext(x) for x in v[1])
    if k in ("exp", "imp"): return "%s%s%d(%s)" % ("x" if k == "exp" else "m", v[1], v[2], _dtext(v[3]))
    return R.der_text(v)

def cc_response_blocks(rng, ids, version, order=None, extra=False, io=1003):
    parts = {"core": R.sc_core(version, rng.choice([None, 0, 1, 3]), None), "sec": R.sc_security(rng.choice([0, 1, 2]), rng.choice([0, 1, 2])),
             "net": R.sc_net(io, ids, pad=rng.random() < 0.7)}
    order = order or ["core", "sec", "net"]
    out = b""
    for k in order:
        if extra and rng.random() < 0.5: out += R.gcc_block(rng.choice([0x0c04, 0x0c06, 0x0c08, 0xc001, 0]), bytes(rng.randrange(256) for _ in range(rng.randrange(0, 9))))
        out += parts[k]
    return out

def der_gcc_cases(tier, rng):
    quick = tier == "quick"
    cs = []
    # ---- DER values from the grammar
    for _ in range(1500 if quick else 60000):
        sch = rand_schema(rng, rng.choice([0, 1, 2, 2, 3, 4]))
        v = inst(rng, sch); t = inst(rng, sch, zero=True)
        enc = R.der_encode(v)
        if len(enc) > 20000: continue
        d = dump_dval(v)
        cs.append(("der rt %s %s" % (_dtext(v), _dtext(t)), "w=%s der=ok:%s ber=ok:%s" % (hx(enc), d, d)))
        r = rng.random()
        if r < 0.15 and len(enc) > 1:
            cs.append(("der dec %s %s" % (_dtext(t), hx(enc[:rng.randrange(len(enc))])), "err:Asn1"))     # truncated
        elif r < 0.25:
            cs.append(("der dec %s %s" % (_dtext(t), hx(enc + bytes([rng.randrange(256)]))), "err:Asn1"))  # trailing byte
    for n in DINT: cs.append(("der enc i%d" % n, "ok:" + hx(R.der_encode(("int", n)))))
    for n in DENUM: cs.append(("der enc e%d" % n, "ok:" + hx(R.der_encode(("enum", n)))))
    for tg in DTAGS:
        for c in "CAP":
            for k in ("exp", "imp"):
                v = (k, c, tg, ("oct", b"\x01"))
                cs.append(("der rt %s %s" % (_dtext(v), _dtext(v)), "w=%s der=ok:o01 ber=ok:o01" % hx(R.der_encode(v))))
    # non-minimal / wrong encodings a strict DER reader refuses
    for (t, h) in [("i0", "02020005"), ("i0", "0200"), ("i0", "0281010 5".replace(" ", "")), ("i0", "020500ffffffff00"), ("i0", "02050100000000"), ("i0", "0201ff"),
                   ("b0", "010101"), ("b0", "01020000"), ("o-", "0481020102"), ("s(i0)", "3080020105 0000".replace(" ", "")), ("s(i0)", "3103020105"),
                   ("i0", "040105"), ("s(i0,i0)", "3003020105"), ("s(i0)", "3006020105020106"), ("xC0(i0)", "a103020105"), ("xC0(i0)", "8003020105")]:
        cs.append(("der dec %s %s" % (t, h), "err:Asn1"))
    # ---- MCS connect-initial / connect-response
    udl = [0, 1, 2, 3, 20, 21, 22, 23, 24, 25, 26, 27, 100, 127, 128, 140, 150, 151, 152, 153, 154, 155, 255, 256, 300, 368, 1000]
    if not quick: udl += [65000, 65535, 70000]
    for n in udl:
        ud = bytes((i * 11 + n) % 256 for i in range(n))
        cs.append(("mcs ci " + hx(ud), "ok:" + hx(R.der_encode(R.connect_initial(ud)))))
        e = R.der_encode(R.connect_response(ud))
        cs.append(("mcs crt " + hx(ud), "w=%s r=ok:%s" % (hx(e), dump_dval(R.connect_response(ud)))))
    for _ in range(200 if quick else 5000):
        ud = bytes(rng.randrange(256) for _ in range(rng.choice([0, 3, 60, 200])))
        v = R.connect_response(ud, rng.choice([0, 1, 2, 14, 15]), rng.choice(DINT), tuple(rng.choice(DINT) for _ in range(8)))
        e = R.der_encode(v)
        cs.append(("mcs cr " + hx(e), "ok:" + dump_dval(v)))
        r = rng.random()
        if r < 0.2: cs.append(("mcs cr " + hx(e[:rng.randrange(len(e))]), "err:Asn1"))
        elif r < 0.3: cs.append(("mcs cr " + hx(e + b"\x00"), "err:Asn1"))
        elif r < 0.4: cs.append(("mcs cr " + hx(b"\x7f\x65" + e[2:]), "err:Asn1"))
    # ---- CredSSP
    tl = [0, 1, 40, 110, 111, 112, 113, 114, 115, 116, 117, 118, 119, 120, 121, 122, 123, 124, 125, 126, 127, 128, 129, 240, 250, 255, 256, 270, 600]
    if not quick: tl += [65535, 65536, 70000]
    for n in tl:
        tok = bytes((i * 5 + n) % 256 for i in range(n)); key = bytes((i * 3 + 1) % 256 for i in range(n % 300))
        cs.append(("cssp req " + hx(tok), "ok:" + hx(R.der_encode(R.ts_request(tok)))))
        cs.append(("cssp auth %s %s" % (hx(tok), hx(key)), "ok:" + hx(R.der_encode(R.ts_authenticate(tok, key)))))
        cs.append(("cssp info " + hx(tok), "ok:" + hx(R.der_encode(R.ts_authinfo(tok)))))
        cs.append(("cssp chal " + hx(R.der_encode(R.ts_challenge([tok, b"zz"]))), "ok:" + hx(tok)))
        cs.append(("cssp val " + hx(R.der_encode(R.ts_validate(tok))), "ok:" + hx(tok)))
        d, u, p = tok[:n // 3], tok[n // 3:2 * n // 3], tok[2 * n // 3:]
        cs.append(("cssp cred %s %s %s" % (hx(d), hx(u), hx(p)), "ok:" + hx(R.der_encode(R.ts_credentials(d, u, p)))))
    cs.append(("cssp chal " + hx(R.der_encode(R.ts_challenge([]))), None))          # empty negoTokens: finding 11 (C07), no claim here
    cs.append(("cssp chal " + hx(R.der_encode(R.ts_validate(b"k"))), None))
    cs.append(("cssp val " + hx(R.der_encode(R.ts_request(b"k"))), None))
    # ---- GCC
    for n in [0, 1, 2, 100, 112, 113, 114, 115, 126, 127, 128, 129, 255, 256, 300, 1000] + ([16369, 16370, 32752, 32753, 32754, 32755, 65521, 65522, 65535, 65536, 65600] if not quick else [32753, 32754, 65522]):
        ud = bytes((i * 17 + n) % 256 for i in range(n))
        cs.append(("gcc18 req " + hx(ud), ("ok:" + hx(R.gcc_conference_create_request(ud))) if n + 14 < 0x8000 else None))
    vers = [0x80001, 0x80004, 0x80000, 0x80002, 0x80003, 0x80005, 0x40001, 0x80104, 0, 1, 4, 0xffffffff]
    vname = lambda v: "4" if v == 0x80001 else "5plus" if v == 0x80004 else "unknown"
    for v in vers + [rng.randrange(1 << 32) for _ in range(50)]: cs.append(("gcc18 ver %d" % v, "ok:" + vname(v)))
    for ty in [0x0c01, 0x0c02, 0x0c03, 0xc001, 0xc002, 0xc003, 0xc004, 0xc005, 0, 7]:
        for ln in [0, 1, 8, 212, 216, 0x7ffb, 0xfffb, 0xfffc, 0xffff]:
            known = ty in (0x0c01, 0x0c02, 0x0c03, 0xc001, 0xc002, 0xc003, 0xc004, 0xc005)
            exp = ("ok:" + hx((ty if known else 0).to_bytes(2, "little") + (ln + 4).to_bytes(2, "little"))) if ln + 4 <= 0xffff else None
            cs.append(("gcc18 hdr %d %d" % (ty, ln), exp))
    import itertools
    for _ in range(400 if quick else 20000):
        ids = [rng.choice([0, 1, 1003, 1004, 1005, 1006, 1007, 0x7fff, 0x8000, 0xffff]) if rng.random() < 0.7 else rng.randrange(65536) for _ in range(rng.choice([0, 1, 1, 2, 3, 4, 5, 31]))]
        version = rng.choice(vers[:6]) if rng.random() < 0.8 else rng.randrange(1 << 32)
        order = list(rng.choice(list(itertools.permutations(["core", "sec", "net"]))))
        io = rng.choice([1003, 1003, 0, 1, 1002, 1004, 0x7fff, 0x8000, 0xffff, rng.randrange(65536)])      # the I/O channel id is the server's choice
        blocks = cc_response_blocks(rng, ids, version, order, extra=rng.random() < 0.3, io=io)
        resp = R.gcc_conference_create_response(blocks, rng.choice([1001, 1002, 31219, 65535]), rng.choice([0, 1, 255, 256, 65535, 65536]), rng.choice([0, 1, 2]))
        cs.append(("gcc18 resp " + hx(resp), "ok:io=%d:ids=%s:ver=%s" % (io, ".".join(str(i) for i in ids) or "-", vname(version))))
        r = rng.random()
        if r < 0.15: cs.append(("gcc18 resp " + hx(resp[:rng.randrange(len(resp))]), None))                  # truncated
        elif r < 0.25:
            # a block is missing (findings 8/9, property C05): no claim, model and implementation must still agree
            keep = rng.sample(["core", "sec", "net"], 2)
            cs.append(("gcc18 resp " + hx(R.gcc_conference_create_response(cc_response_blocks(rng, ids, version, keep))), None))
        elif r < 0.32:
            bad = bytearray(resp); bad[rng.randrange(len(bad))] = rng.choice([0, 1, 3, 0x7f, 0x80, 0xff])
            cs.append(("gcc18 resp " + hx(bytes(bad)), None))
    for ln in range(0, 5):
        cs.append(("gcc18 resp " + hx(R.gcc_conference_create_response(bytes([1, 0x0c, ln, 0]) + R.sc_net(1003, [1004]) + R.sc_core(0x80004))), None))
    for _ in range(60 if quick else 2000):
        n = rng.choice([0, 1, 5, 15, 16, 17, 20])
        name = bytes(rng.choice(b"abcXYZ019-_ ") for _ in range(n))
        w, h, proto, lay = rng.randrange(65536), rng.randrange(65536), rng.choice([0, 1, 2, 3, 0xffffffff]), rng.choice(["us", "fr"])
        n16 = b"".join(bytes([c, 0]) for c in (name[:15] + bytes(16 - min(n, 15))))   # MS-RDPBCGR 2.2.1.3.2: at most 15 characters + null terminator
        ref = (0x80004).to_bytes(4, "little") + w.to_bytes(2, "little") + h.to_bytes(2, "little") + b"\x01\xca\x03\xaa" + \
              (0x409 if lay == "us" else 0x40c).to_bytes(4, "little") + (3790).to_bytes(4, "little") + n16 + (4).to_bytes(4, "little") + bytes(4) + \
              (12).to_bytes(4, "little") + bytes(64) + b"\x01\xca\x01\x00" + bytes(4) + b"\x18\x00\x0a\x00\x01\x00" + bytes(64) + b"\x00\x00" + proto.to_bytes(4, "little")
        cs.append(("gcc18 ccore %d %d %s %d %s" % (w, h, lay, proto, hx(name)), "len=%d w=%s r=ok consumed=%d same=true" % (len(ref), hx(ref), len(ref))))
    return cs

# ------------------------------------------------------------------------------------------------ decode, then encode
def dw_line(dec, enc, show, data):
    """expected output of a `per dw..` case from the REFERENCE decoder and encoder (None = the reference does not accept
    the input: no claim, model and implementation must still agree)"""
    r = dec(data)
    if r is None: return None
    v, rest = r
    w = enc(v)
    if w is None: return None
    return "r=ok:%s:rest=%d w=%s same=%d" % (show(v), len(rest), hx(w), 1 if w + bytes(rest) == bytes(data) else 0)

def per_dw_cases(tier, rng):
    quick = tier == "quick"
    cs = []
    tails = [b"", b"\xaa", b"\x00\x01"]
    # ---- length determinant: every first octet, second octets over a grid (canonical iff one octet, or value >= 128)
    seconds = [0, 1, 5, 0x7f, 0x80, 0x81, 0xfe, 0xff]
    for b0 in range(256):
        for b1 in (seconds if (b0 >= 0x80 and (b0 in (0x80, 0x81, 0xff) or not quick or b0 % 16 == 0)) else [0x55]):
            data = bytes([b0, b1]) + rng.choice(tails)
            cs.append(("per dwlen " + hx(data), dw_line(R.per_dec_length, R.per_length, str, data)))
    cs.append(("per dwlen 80", None)); cs.append(("per dwlen -", None))
    # ---- integer: canonical and non-minimal size classes, one- and two-octet length determinants, bad sizes, short input
    vals = [0, 1, 0x7f, 0x80, 0xff, 0x100, 0x101, 0x7fff, 0x8000, 0xffff, 0x10000, 0x10001, 0xffffff, 0x1000000, 0x7fffffff, 0x80000000, 0xffffffff]
    vals += [rng.randrange(1 << 32) for _ in range(40 if quick else 3000)] + [rng.randrange(1 << 16) for _ in range(20 if quick else 1000)]
    for v in vals:
        for size in (1, 2, 4):
            if v >= 1 << (8 * size): continue
            body = v.to_bytes(size, "big")
            for hdr in (bytes([size]), bytes([0x80, size])):
                data = hdr + body + rng.choice(tails)
                cs.append(("per dwint " + hx(data), dw_line(R.per_dec_integer, R.per_integer, str, data)))
    for data in [b"", b"\x00", b"\x03\x01\x02\x03", b"\x05\x01\x02\x03\x04\x05", b"\x02\x01", b"\x04\x01\x02\x03", b"\x80", b"\x80\x02\x01", b"\x81\x00" + bytes(256)]:
        cs.append(("per dwint " + hx(data), None))
    # ---- integer_16: always canonical
    for (raw, m) in [(0, 0), (3, 1001), (64534, 1001), (64535, 1001), (65535, 0), (65535, 1), (0, 65535), (1, 65535), (1234, 77)] + \
                    [(rng.randrange(65536), rng.randrange(65536)) for _ in range(60 if quick else 3000)]:
        data = raw.to_bytes(2, "big") + rng.choice(tails)
        exp = dw_line(lambda b: R.per_dec_integer_16(m, b), lambda v: (v - m).to_bytes(2, "big"), str, data)
        cs.append(("per dwint16 %d %s" % (m, hx(data)), exp))
    cs.append(("per dwint16 5 01", None))
    # ---- object identifier (the reader compares): canonical, two-octet length, arcs the writer refuses, mismatches
    oids = [T124_OID, bytes([1, 2, 3, 4, 5, 6]), bytes([2, 39, 127, 127, 127, 127]), bytes([0, 0, 0, 0, 0, 0]), bytes([2, 0, 20, 124, 0, 1])]
    oids += [bytes([rng.choice([0, 1, 2]), rng.randrange(40)] + [rng.randrange(128) for _ in range(4)]) for _ in range(30 if quick else 2000)]
    for o in oids:
        e = R.per_oid(list(o))
        def exp_oid(expected, data):
            r = R.per_dec_oid(data)
            if r is None or len(r[0]) != 6 or R.per_oid(r[0]) is None: return None
            arcs, rest = r
            if list(expected) == arcs:
                w = R.per_oid(arcs)
                return "r=ok:true:rest=%d w=%s same=%d" % (len(rest), hx(w), 1 if w + bytes(rest) == bytes(data) else 0)
            return "r=ok:false:rest=%d w=- same=0" % len(rest)
        for data in (e, e + b"\xbb", b"\x80" + e):
            cs.append(("per dwoid %s %s" % (hx(o), hx(data)), exp_oid(o, data)))
        o2 = bytearray(o); i = rng.randrange(6); o2[i] = (o2[i] + 1) % (3 if i == 0 else 40 if i == 1 else 128)
        cs.append(("per dwoid %s %s" % (hx(bytes(o2)), hx(e)), exp_oid(bytes(o2), e)))
    # outside the writer's domain the reader still compares; the writer refuses (no reference claim)
    for (o, data) in [(bytes([3, 5, 20, 124, 0, 1]), bytes([5, 125, 20, 124, 0, 1])), (bytes([2, 45, 20, 124, 0, 1]), bytes([5, 125, 20, 124, 0, 1])),
                      (bytes([0, 0, 200, 124, 0, 1]), bytes([5, 0, 200, 124, 0, 1])), (bytes([6, 15, 1, 2, 3, 4]), bytes([5, 255, 1, 2, 3, 4])),
                      (T124_OID, bytes([4, 0, 20, 124, 0])), (T124_OID, bytes([5, 0, 20, 124])), (T124_OID, b"")]:
        cs.append(("per dwoid %s %s" % (hx(o), hx(data)), None))
    # ---- octet stream (compared with the expected string)
    for (s_, m) in [(b"McDn", 4), (b"Duca", 4), (b"", 0), (b"a", 0), (b"abc", 1), (bytes(range(130)), 0), (bytes(range(130)), 4), (bytes(200), 131)]:
        e = R.per_octet_string(s_, m)
        l = len(s_) - m
        for data in [e + rng.choice(tails), bytes([0x80 | (l >> 8), l & 0xff]) + s_ + rng.choice(tails)]:
            def dec(b, s_=s_, m=m):
                r = R.per_dec_octet_string(m, b)
                return None if r is None or r[0] != s_ else ("-", r[1])
            cs.append(("per dwoct %s %d %s" % (hx(s_), m, hx(data)), dw_line(dec, lambda v, s_=s_, m=m: R.per_octet_string(s_, m), str, data)))
    cs.append(("per dwoct 4d63446e 4 004d63446f", None)); cs.append(("per dwoct 4d63446e 4 014d63446e00", None))
    # ---- numeric string: digits, nibbles above 9, non-zero pad nibble, two-octet length
    def num_case(m, data):
        exp = dw_line(lambda b: R.per_dec_numeric_string(m, b), lambda v: R.per_numeric_string(v, m), hx, data)
        cs.append(("per dwnum %d %s" % (m, hx(data)), exp))
    for n in list(range(0, 9)) + [127, 128, 129, 255, 256]:
        for m in (0, 1):
            if n < m: continue
            body = bytes(((rng.randrange(10) << 4) | rng.randrange(10)) for _ in range((n + 1) // 2))
            if n % 2: body = body[:-1] + bytes([body[-1] & 0xf0])
            lb = R.per_length(n - m)
            num_case(m, lb + body + rng.choice(tails))
            num_case(m, bytes([0x80 | ((n - m) >> 8), (n - m) & 0xff]) + body)
            if n:
                bad = bytearray(body); k = rng.randrange(len(bad)); bad[k] = rng.choice([0x1a, 0xa1, 0xff, 0x0f, 0xf0])
                num_case(m, lb + bytes(bad))                                   # a nibble above 9 somewhere (or in the pad)
            if n % 2:
                num_case(m, lb + body[:-1] + bytes([body[-1] | rng.randrange(1, 16)]))   # non-zero pad nibble
    for data in [b"", b"\x03\x12", b"\x80", b"\x81\x00\x11"]:
        for m in (0, 1): cs.append(("per dwnum %d %s" % (m, hx(data)), None))
    # ---- padding: zeros / non-zeros / short
    for n in [0, 1, 2, 7]:
        for data in [bytes(n), bytes(n) + b"\x09", bytes([7] * n), bytes(max(0, n - 1)), bytes([0] * max(0, n - 1) + [1]) + b"\x00"]:
            have = min(n, len(data))
            cs.append(("per dwpad %d %s" % (n, hx(data)), "r=ok:-:rest=%d w=%s same=%d" % (len(data) - have, hx(bytes(n)), 1 if bytes(n) + data[have:] == data else 0)))
    # ---- one-octet primitives: always canonical
    for v in ([0, 1, 0x7f, 0x80, 0xff] if quick else range(256)):
        for op in ("dwchoice", "dwsel", "dwnset", "dwenum"):
            t = rng.choice(tails)
            cs.append(("per %s %s" % (op, hx(bytes([v]) + t)), "r=ok:%d:rest=%d w=%02x same=1" % (v, len(t), v)))
    for op in ("dwchoice", "dwsel", "dwnset", "dwenum"): cs.append(("per %s -" % op, "r=err:Io"))
    return cs

def der_dw_cases(tier, rng):
    quick = tier == "quick"
    cs = []
    # the strict reader accepts the encoder's output and gives it back; BER liberties are refused
    for _ in range(300 if quick else 20000):
        sch = rand_schema(rng, rng.choice([0, 1, 2, 2, 3]))
        v = inst(rng, sch); t = inst(rng, sch, zero=True)
        enc = R.der_encode(v)
        if len(enc) > 6000: continue
        cs.append(("der dw %s %s" % (_dtext(t), hx(enc)), "ok:%s w=%s same=1" % (dump_dval(v), hx(enc))))
        if len(enc) >= 2 and enc[1] < 0x80 and rng.random() < 0.5:
            cs.append(("der dw %s %s" % (_dtext(t), hx(enc[:1] + R.ber_long_len(enc[1], 0) + enc[2:])), "err:Asn1"))   # 81 nn for nn < 128
    for (t, h) in [("i0", "02020005"), ("i0", "0281010 5".replace(" ", "")), ("b0", "010101"), ("s(i0)", "30800201050000"), ("xC5(i0)", "bf0503020105")]:
        cs.append(("der dw %s %s" % (t, h), "err:Asn1"))
    # the connect response through the lenient reader the client uses: DER comes back, BER variants are read but re-encode differently
    for _ in range(60 if quick else 3000):
        ud = bytes(rng.randrange(256) for _ in range(rng.choice([0, 3, 60, 130, 300])))
        v = R.connect_response(ud, rng.choice([0, 1, 2, 14, 15]), rng.choice(DINT), tuple(rng.choice(DINT) for _ in range(8)))
        e = R.der_encode(v)
        inner = R.der_encode(v[3])[1:]                 # the SEQUENCE without its identifier octet ...
        ln = R.der_len(len(b"".join(R.der_encode(x) for x in v[3][1])))
        body = inner[len(ln):]                         # ... and without its length: the four members
        cs.append(("mcs crdw " + hx(e), "ok:ud=%s same=1" % hx(ud)))
        q = rng.random()
        if q < 0.3:   cs.append(("mcs crdw " + hx(b"\x7f\x66" + R.ber_long_len(len(body)) + body), "ok:ud=%s same=0" % hx(ud)))       # non-minimal length
        elif q < 0.5: cs.append(("mcs crdw " + hx(b"\x7f\x66\x80" + body + b"\x00\x00"), "ok:ud=%s same=0" % hx(ud)))                # indefinite length
        elif q < 0.7 and len(ud) >= 2:
            k = len(ud) // 2
            pre = body[:len(body) - len(R.der_encode(("oct", ud)))]
            parts = R.der_encode(("oct", ud[:k])) + R.der_encode(("oct", ud[k:]))
            body2 = pre + b"\x24" + R.der_len(len(parts)) + parts                                                                       # constructed OCTET STRING
            cs.append(("mcs crdw " + hx(b"\x7f\x66" + R.der_len(len(body2)) + body2), "ok:ud=%s same=0" % hx(ud)))
        elif q < 0.8: cs.append(("mcs crdw " + hx(e[:rng.randrange(len(e))]), None))
        elif q < 0.9: cs.append(("mcs crdw " + hx(e + b"\x00"), None))
    return cs

def rw_cases(tier, rng):
    """templates of every kind read from the bytes of a well-formed message (+ trailing bytes) and from damaged bytes,
    then written back"""
    n = 4000 if tier == "quick" else 300000
    out = []
    for i in range(n):
        depth = rng.choice([1, 2, 2, 3, 3, 4])
        closed = rng.random() < 0.5
        _claim[0] = True
        g = g_node(rng, depth, closed)
        if len(g.w) > 6000 or has_big_size(g.t): continue
        rest = b"" if closed else bytes(rng.randrange(256) for _ in range(rng.choice([0, 1, 3, 8])))
        exp = ("ok consumed=%d val=%s len=%d w=%s same=1" % (len(g.b), g.d, len(g.b), hx(g.b))) if _claim[0] else None
        out.append(("rw %s %s" % (g.t, hx(g.b + rest)), exp))
        r = rng.random()
        if r < 0.5:
            data = bytearray(g.b + rest)
            q = rng.random()
            if q < 0.35 and data: data = data[:rng.randrange(len(data))]
            elif q < 0.7 and data: data[rng.randrange(len(data))] = rng.choice([0, 1, 3, 5, 17, 0x7f, 0x80, 0xff])
            else: data += bytes(rng.randrange(256) for _ in range(rng.randrange(1, 6)))
            out.append(("rw %s %s" % (g.t, hx(bytes(data))), None))
    # the layouts the client reads, on inputs that are tight and on inputs that lose bytes (C18_inv_layouts.v)
    sch = "c(totalLength=d(zpduMessage~x_6;u16l:0),pduType=u16l:17,PDUSource=o(u16l:0),pduMessage=v:-)"
    for h in ["08001700ea03aabbcc", "06001700", "06001700ea", "0a001700ea03aabbccdd", "09001700ea03aabbccdd"]: out.append(("rw %s %s" % (sch, h), None))
    core = "c(rdpVersion=u32l:0,clientRequestedProtocol=o(u32l:0),earlyCapabilityFlags=o(u32l:0))"
    for k in range(0, 15): out.append(("rw %s %s" % (core, hx(bytes((7 * j + 1) % 256 for j in range(k)))), None))
    net = "c(MCSChannelId=u16l:0,channelCount=d(zchannelIdArray~x*2;u16l:0),channelIdArray=a(u16l:0))"
    for h in ["eb030200ec03ed03", "eb030100ec030000", "eb030000", "eb030200ec03ed", "eb030300ec03ed03ee03aa", "ffff0100ec03", "00000000"]: out.append(("rw %s %s" % (net, h), None))
    return out

def gcc_canon_cases(tier, rng):
    """the canonical reconstruction of what the reader returned (I/O channel id, channel ids, version) reads back to the
    same server data"""
    cs = []
    vcode = {"4": 0x80001, "5plus": 0x80004, "unknown": 0}
    for _ in range(60 if tier == "quick" else 3000):
        ids = [rng.choice([0, 1003, 1004, 1005, 0x7fff, 0x8000, 0xffff]) if rng.random() < 0.6 else rng.randrange(65536) for _ in range(rng.choice([0, 1, 2, 3, 5, 31]))]
        ver = rng.choice(["4", "5plus", "unknown"])
        io = rng.choice([1003, 1003, 0, 1, 1004, 0x7fff, 0x8000, 0xffff]) if rng.random() < 0.7 else rng.randrange(65536)
        canon = R.gcc_conference_create_response(R.sc_core(vcode[ver]) + R.sc_security(0, 0) + R.sc_net(io, ids), 1001, 1, 0)
        cs.append(("gcc18 resp " + hx(canon), "ok:io=%d:ids=%s:ver=%s" % (io, ".".join(str(i) for i in ids) or "-", ver)))
    return cs

def absent_cases(tier, rng):
    """consecutive absent trailing options (the checker [wf] covers them: what follows an absent option writes nothing),
    also nested and in front of an empty read-to-end block; written, read back (claimed well formed, closed reader), and
    read-then-written"""
    out = []
    for _ in range(60 if tier == "quick" else 3000):
        head = [g_num(rng) for _ in range(rng.choice([0, 1, 2]))]
        k = rng.choice([2, 2, 3, 4])
        present = rng.randrange(0, k)                       # the first `present` options are there, the others absent
        opts = [g_num(rng) for _ in range(k)]
        names = [fresh(rng) for _ in range(len(head) + k + 1)]
        fw, ft, fd, b = [], [], [], b""
        for i, g in enumerate(head):
            fw.append("%s=%s" % (names[i], g.w)); ft.append("%s=%s" % (names[i], g.t)); fd.append("%s=%s" % (names[i], g.d)); b += g.b
        for j, g in enumerate(opts):
            nm = names[len(head) + j]
            ft.append("%s=o(%s)" % (nm, g.t))
            if j < present: fw.append("%s=o(%s)" % (nm, g.w)); fd.append("%s=%s" % (nm, g.d)); b += g.b
            else: fw.append("%s=o()" % nm); fd.append("%s=~" % nm)
        if rng.random() < 0.3:                              # an empty unsized block after the absent options
            nm = names[-1]; fw.append("%s=v:-" % nm); ft.append("%s=v:-" % nm); fd.append("%s=x-" % nm)
        w, t, d = "c(%s)" % ",".join(fw), "c(%s)" % ",".join(ft), "{%s}" % ",".join(fd)
        if rng.random() < 0.3:
            pre = g_num(rng); w, t, d, b = "t(%s,%s)" % (pre.w, w), "t(%s,%s)" % (pre.t, t), "[%s,%s]" % (pre.d, d), pre.b + b
        out.append(("msg %s %s - c" % (w, t), "len=%d w=%s r=ok consumed=%d val=%s" % (len(b), hx(b), len(b), d)))
        out.append(("rw %s %s" % (t, hx(b)), "ok consumed=%d val=%s len=%d w=%s same=1" % (len(b), d, len(b), hx(b))))
    return out

def inv_cases(tier, rng):
    return absent_cases(tier, rng) + per_dw_cases(tier, rng) + der_dw_cases(tier, rng) + rw_cases(tier, rng) + gcc_canon_cases(tier, rng)

EXTRA = [der_gcc_cases, inv_cases]

def gen_cases(tier, rng):
    cases = per_cases(tier, rng)
    for f in EXTRA: cases += f(tier, rng)
    cases += chain_cases(tier, rng)
    cases += double_size_cases(tier, rng)
    cases += msg_cases(tier, rng)
    return cases

# ------------------------------------------------------------------------------------------------ classification
def classify(line, out):
    t = line.split()
    op = t[0] + ":" + (t[1] if t[0] in ("per", "der", "mcs", "cssp", "gcc18") else "")
    if "crashed" in out or "spin" in out.split(): k = "crash"
    elif "panic" in out: k = "panic"
    elif "err:" in out: k = "err:" + out.split("err:")[1].split()[0].split(":")[0]
    else: k = "ok"
    return op + "/" + k

def sig_of(shape):
    return "".join(sorted(set(re.findall(r"[tcAakdo](?=\()|u8|u16|u32|v:", shape))))

def shape(line):
    t = line.split()
    if t[0] == "msg": return ("msg", sig_of(t[1]), min(t[1].count("("), 12), t[4] if len(t) > 4 else "-")
    if t[0] in ("rd", "rw"): return (t[0], sig_of(t[1]), min(t[1].count("("), 12))
    return (t[0], t[1], min(len(line) // 16, 20))

def nontrivial(line, out):
    if line.startswith("msg"): return " r=ok" in out and "w=-" not in out
    if line.startswith("rw "): return " same=" in out and "consumed=0 " not in out
    return ("ok:" in out or "err:Invalid" in out) and not line.endswith(" -")

def unhx(t): return b"" if t in ("-", "") else bytes.fromhex(t)

def ref_expect(line):
    """what the reference codecs say the outcome of a self-contained case must be (None = no claim); used for the
    corpus witnesses and for every generated case that carries no explicit expectation"""
    t = line.split()
    try:
        if t[0] == "per":
            op, a = t[1], t[2:]
            if op == "rtlen":
                e = R.per_length(int(a[0])); return None if e is None else "w=ok:%s r=ok:%d:rest=1" % (hx(e), int(a[0]))
            if op == "rtint": return "w=ok:%s r=ok:%d:rest=1" % (hx(R.per_integer(int(a[0]))), int(a[0]))
            if op == "rtint16":
                v, m = int(a[0]), int(a[1])
                return None if v < m else "w=ok:%s r=ok:%d:rest=1" % (hx((v - m).to_bytes(2, "big")), v)
            if op == "rtoid":
                o = unhx(a[0])
                if len(o) != 6: return "w=err:InvalidSize"
                e = R.per_oid(list(o)); return "w=err:InvalidData" if e is None else "w=ok:%s r=ok:true:rest=1" % hx(e)
            if op == "rtoct":
                e = R.per_octet_string(unhx(a[0]), int(a[1])); return None if e is None else "w=ok:%s r=ok:-:rest=1" % hx(e)
            if op == "rtnum":
                e = R.per_numeric_string(unhx(a[0]), int(a[1])); return None if e is None else "w=ok:%s r=ok:%s:rest=1" % (hx(e), hx(unhx(a[0])))
        if t[0] == "gcc18" and t[1] == "ver":
            v = int(t[2]); return "ok:" + ("4" if v == 0x80001 else "5plus" if v == 0x80004 else "unknown")
        if t[0] == "gcc18" and t[1] == "req":
            ud = unhx(t[2]); return ("ok:" + hx(R.gcc_conference_create_request(ud))) if len(ud) + 14 < 0x8000 else None
        if t[0] == "mcs" and t[1] == "ci": return "ok:" + hx(R.der_encode(R.connect_initial(unhx(t[2]))))
    except Exception:
        return None
    return None

def oracle(line, out, expect):
    out = out.split(" #")[0]
    if expect is None: expect = ref_expect(line)
    if "crashed" in out or "spin" in out.split(): return "codec crashed or did not terminate: " + out
    if line.startswith("msg ") and " w=" in out and "w=panic" not in out and "w=err" not in out:
        # generic law, judged on the implementation's own output: length() = number of bytes written
        m = re.match(r"len=(\S+) w=(\S+)", out)
        if m and m.group(1) != "panic":
            nbytes = 0 if m.group(2) == "-" else len(m.group(2)) // 2
            if int(m.group(1)) != nbytes: return "length() = %s but %d bytes were written" % (m.group(1), nbytes)
    if " same=" in out and " w=" in out and "w=err" not in out and "w=panic" not in out:
        # generic laws of the other direction, judged on the implementation's own output: the bytes written after a
        # read are never more than the bytes consumed, length() is their number, and `same` means what it says
        t = line.split()
        w = unhx(re.search(r" w=(\S+)", out).group(1)); same = out.endswith("same=1")
        if t[0] == "rw":
            data = unhx(t[2]); consumed = int(re.search(r"consumed=(\d+)", out).group(1)); ln = re.search(r" len=(\S+)", out).group(1)
            if ln != str(len(w)): return "length() = %s of the message read, but writing it gives %d bytes" % (ln, len(w))
            if len(w) > consumed: return "read consumed %d bytes but the message read writes %d" % (consumed, len(w))
            if same != (w + data[consumed:] == data): return "inconsistent comparison: same=%d" % same
        elif t[0] == "per" and t[1].startswith("dw"):
            data = unhx(t[-1]); rest = int(re.search(r"rest=(\d+)", out).group(1))
            if same != (w + data[len(data) - rest:] == data): return "inconsistent comparison: same=%d" % same
    if expect is not None and out != expect:
        return "reference codec / generic law expects `%s`, implementation returned `%s`" % (expect[:400], out[:400])
    return None
from ties import of as _tie_of; TIE_LAYOUTS, TIE_PINS, TIE_ENUMS = _tie_of("C18")   # static-tie lemmas (coq/Gen/Tie) this property depends on
