"""C09: decompressed bitmaps are pixel-exact -- reference ENCODER, case generator and oracle.
Case lines (the implementation sees only w, h and the stream; the order / segment text is for the extracted Coq SPEC,
which the OCaml driver evaluates next to the model and reports as ` spec:<why>` when it disagrees):
  ord16 <w> <h> <stream> <orders>      interleaved RLE, 16 bpp
  pl32  <w> <h> <stream> <planes>      planar RLE, 32 bpp
  bmp   <w> <h> <bpp> 0 <data>         uncompressed
Outcome: ok <len:fnv64:head of the returned buffer>.  Oracle: the returned buffer IS the source image (BGRA, top-down)."""
from common import *

GROUP = "codec"
MODEL_FILES = ["coq/Buf.v", "coq/Rle16.v", "coq/Rle32.v", "coq/Bitmap.v", "coq/RefRle.v (spec, evaluated by the driver)"]
PROFILES = ["debug", "release"]
RULE = ("images -> reference encoder -> decompress -> must equal the image.  Interleaved RLE 16 bpp: ALL images of sizes 1x1, 1x2, 2x1, "
        "2x2 over a 3-colour palette, each with the trivial encoding and several PRNG-chosen encodings; random and structured "
        "images (noise over small palettes, vertical repeats, xor-with-foreground rows, masks, colour runs, dither, specials) up "
        "to 64x64; the encoder picks at every position among ALL applicable orders (BG run with the foreground-insertion rule, FG "
        "run, SET-FG run, FGBG image, SET-FGBG image, colour run, colour image, dithered run, F9, FA, white, black), a PRNG run "
        "split and a PRNG header form (short / extended / mega-mega); every stream is re-decoded by the generator's own flat "
        "per-pixel semantics before use.  Planar RLE 32 bpp: random/structured BGRA images with PRNG segmentation (raw+run, long "
        "runs 16..47, empty segments).  Uncompressed 16 and 32 bpp incl. all 65536 colours.  The extracted Coq spec "
        "(ser / sem / planar_image) is evaluated on every compressed case.  distinct = distinct (op, size class, set of order "
        "kinds and forms used).")
TRUSTED_BASE = ["Coq 8.16.1 kernel (vm_compute for the finite sweeps over 5/6-bit channels and one byte, and for the examples)",
                "hand-written model (Buf/Rle16/Rle32/Bitmap.v, shared with C08) tied to /repo by this correspondence run",
                "coq/RefRle.v: the reading of MS-RDPBCGR 2.2.9.1.1.3.1.2.4 / 3.1.9 and MS-RDPEGDI 3.1.9.2 (per-pixel, DESIGN Appendix D)",
                "gen/c09.py reference encoder + flat semantics (independent of the Coq spec and of the crate)",
                "extraction (ExtrOcamlBasic only) + ocaml/codec/driver.ml, Rust harness/src/codec.rs"]
ASSUMPTIONS = ["conformant encodings only: counts >= 1, orders do not run past the image, planar segments do not cross a scan line",
               "uncompressed scan lines are not padded (the decoder takes width*bytes per row); MS-RDPBCGR pads rows to 4 bytes, "
               "so odd-width uncompressed 16 bpp data from a real server is outside what the crate handles (not part of C09's statement)"]

WHITE = 0xFFFF

# ------------------------------------------------------------------ flat semantics (DESIGN Appendix D), per pixel
def above(out, w):
    return out[len(out) - w] if len(out) >= w else None
def bg_px(out, w):
    a = above(out, w); return a if a is not None else 0
def fg_px(out, w, fg):
    a = above(out, w); return (a ^ fg) if a is not None else fg

def sem16(w, orders):
    out = []; fg = WHITE; ins = False
    for o in orders:
        k = o[0]
        if k == "bg":
            n = o[1]
            out.append(fg_px(out, w, fg) if (ins and len(out) != w) else bg_px(out, w))
            for _ in range(n - 1): out.append(bg_px(out, w))
            ins = True; continue
        ins = False
        if k == "fg":
            for _ in range(o[1]): out.append(fg_px(out, w, fg))
        elif k == "setfg":
            fg = o[2]
            for _ in range(o[1]): out.append(fg_px(out, w, fg))
        elif k in ("fgbg", "setfgbg", "s1", "s2"):
            if k == "setfgbg": fg = o[2]
            n, masks = (8, [3]) if k == "s1" else (8, [5]) if k == "s2" else (o[1], o[-1])
            for i in range(n):
                bit = (masks[i // 8] >> (i % 8)) & 1
                out.append(fg_px(out, w, fg) if bit else bg_px(out, w))
        elif k == "col":
            out += [o[2]] * o[1]
        elif k == "img":
            out += list(o[1])
        elif k == "dith":
            out += [o[2], o[3]] * o[1]
        elif k == "wh": out.append(WHITE)
        elif k == "bl": out.append(0)
    return out

# ------------------------------------------------------------------ serialisation (MS-RDPBCGR 2.2.9.1.1.3.1.2.4)
def le16b(v): return bytes([v & 255, v >> 8])
CODES = {"bg": (0x00, 31, 32, 0xF0), "fg": (0x20, 31, 32, 0xF1), "fgbg": (0x40, 31, None, 0xF2), "col": (0x60, 31, 32, 0xF3),
         "img": (0x80, 31, 32, 0xF4), "setfg": (0xC0, 15, 16, 0xF6), "setfgbg": (0xD0, 15, None, 0xF7), "dith": (0xE0, 15, 16, 0xF8)}

def forms_for(kind, n):
    if kind in ("s1", "s2", "wh", "bl"): return ["s"]
    code, bits, off, mega = CODES[kind]
    fs = []
    if kind in ("fgbg", "setfgbg"):
        if n % 8 == 0 and 1 <= n // 8 <= bits: fs.append("s")
        if 1 <= n <= 256: fs.append("x")
    else:
        if 1 <= n <= bits: fs.append("s")
        if off <= n <= off + 255: fs.append("x")
    if 1 <= n <= 65535: fs.append("m")
    return fs

def order_n(o):
    return len(o[1]) if o[0] == "img" else 8 if o[0] in ("s1", "s2") else 1 if o[0] in ("wh", "bl") else o[1]

def ser16(o, f):
    k = o[0]
    if k == "s1": return b"\xf9"
    if k == "s2": return b"\xfa"
    if k == "wh": return b"\xfd"
    if k == "bl": return b"\xfe"
    n = order_n(o)
    code, bits, off, mega = CODES[k]
    if f == "m": h = bytes([mega]) + le16b(n)
    elif k in ("fgbg", "setfgbg"): h = bytes([code | (n // 8)]) if f == "s" else bytes([code, n - 1])
    else: h = bytes([code | n]) if f == "s" else bytes([code, n - off])
    if k == "setfg": return h + le16b(o[2])
    if k == "setfgbg": return h + le16b(o[2]) + bytes(o[3])
    if k == "fgbg": return h + bytes(o[2])
    if k == "col": return h + le16b(o[2])
    if k == "img": return h + b"".join(le16b(v) for v in o[1])
    if k == "dith": return h + le16b(o[2]) + le16b(o[3])
    return h

def txt16(o, f):
    k = o[0]
    if k in ("s1", "s2", "wh", "bl"): return k
    if k in ("bg", "fg"): return "%s.%s.%d" % (k, f, o[1])
    if k == "setfg": return "setfg.%s.%d.%d" % (f, o[1], o[2])
    if k == "fgbg": return "fgbg.%s.%d.%s" % (f, o[1], hx(bytes(o[2])))
    if k == "setfgbg": return "setfgbg.%s.%d.%d.%s" % (f, o[1], o[2], hx(bytes(o[3])))
    if k == "col": return "col.%s.%d.%d" % (f, o[1], o[2])
    if k == "img": return "img.%s.%s" % (f, hx(b"".join(le16b(v) for v in o[1])))
    if k == "dith": return "dith.%s.%d.%d.%d" % (f, o[1], o[2], o[3])

# ------------------------------------------------------------------ the reference encoder
def encode16(px, w, rng, prefer=None):
    """px: flat bottom-up pixels.  At every position collect every applicable order with its maximal length, pick one by
    PRNG, cut its length by PRNG, pick a header form by PRNG."""
    n = len(px); p = 0; fg = WHITE; ins = False
    out = []
    def ab(q): return px[q - w] if q >= w else None
    def bgv(q): a = ab(q); return a if a is not None else 0
    def fgv(q, f): a = ab(q); return (a ^ f) if a is not None else f
    while p < n:
        cands = []
        # BG run (first pixel subject to the insertion rule)
        first = fgv(p, fg) if (ins and p != w) else bgv(p)
        if px[p] == first:
            L = 1
            while p + L < n and px[p + L] == bgv(p + L): L += 1
            cands.append(("bg", L))
        # FG run with the current colour
        L = 0
        while p + L < n and px[p + L] == fgv(p + L, fg): L += 1
        if L: cands.append(("fg", L))
        # SET-FG run: the colour that makes the first pixel a foreground pixel
        a = ab(p); nf = (px[p] ^ a) if a is not None else px[p]
        L = 0
        while p + L < n and px[p + L] == fgv(p + L, nf): L += 1
        cands.append(("setfg", L, nf))
        # FGBG with the current colour / with a new colour
        for (kind, f) in (("fgbg", fg), ("setfgbg", nf)):
            L = 0
            while p + L < n and px[p + L] in (fgv(p + L, f), bgv(p + L)): L += 1
            if L: cands.append((kind, L, f))
        # colour run
        L = 1
        while p + L < n and px[p + L] == px[p]: L += 1
        cands.append(("col", L, px[p]))
        # dithered run
        if p + 1 < n:
            c1, c2 = px[p], px[p + 1]; L = 1
            while p + 2 * L + 1 < n and px[p + 2 * L] == c1 and px[p + 2 * L + 1] == c2: L += 1
            cands.append(("dith", L, c1, c2))
        # colour image: always
        cands.append(("img", n - p))
        # specials
        for (kind, m) in (("s1", 3), ("s2", 5)):
            if p + 8 <= n and all(px[p + i] == (fgv(p + i, fg) if (m >> i) & 1 else bgv(p + i)) for i in range(8)):
                cands.append((kind, 8))
        if px[p] == WHITE: cands.append(("wh", 1))
        if px[p] == 0: cands.append(("bl", 1))
        sp = [c for c in cands if c[0] in ("s1", "s2")]
        if sp and rng.random() < 0.6: cands = sp
        # the SET variants are always applicable: keep them from crowding out the plain orders
        if rng.random() < 0.6: cands = [c for c in cands if c[0] not in ("setfg", "setfgbg")] or cands
        if prefer:
            pc = [c for c in cands if c[0] in prefer]
            if pc and rng.random() < 0.8: cands = pc
        else:
            # colour image is always possible: do not let it dominate
            if len(cands) > 2 and rng.random() < 0.7: cands = [c for c in cands if c[0] != "img"]
        c = rng.choice(cands)
        kind, L = c[0], c[1]
        if kind in ("s1", "s2", "wh", "bl"): o = (kind,); used = L
        else:
            r = rng.random()
            m = L if r < 0.5 else rng.randrange(1, L + 1) if r < 0.9 else min(L, rng.choice([1, 7, 8, 9, 15, 16, 17, 31, 32, 33, 255, 256, 257]))
            m = min(m, 65535)
            if kind == "dith": used = 2 * m
            else: used = m
            if kind == "bg": o = ("bg", m)
            elif kind == "fg": o = ("fg", m)
            elif kind == "setfg": o = ("setfg", m, c[2])
            elif kind in ("fgbg", "setfgbg"):
                f = c[2]; masks = [0] * ((m + 7) // 8)
                for i in range(m):
                    q = p + i; isf = px[q] == fgv(q, f); isb = px[q] == bgv(q)
                    bit = 1 if (isf and not isb) else 0 if (isb and not isf) else rng.randrange(2)
                    masks[i // 8] |= bit << (i % 8)
                # unused high bits of the last mask byte are free
                if m % 8 and rng.random() < 0.5: masks[-1] |= (rng.randrange(256) << (m % 8)) & 255
                o = ("fgbg", m, masks) if kind == "fgbg" else ("setfgbg", m, f, masks)
            elif kind == "col": o = ("col", m, c[2])
            elif kind == "dith": o = ("dith", m, c[2], c[3])
            elif kind == "img": o = ("img", px[p:p + m])
        f = rng.choice(forms_for(o[0], order_n(o)))
        out.append((o, f))
        if o[0] in ("setfg", "setfgbg"): fg = o[2]
        ins = (o[0] == "bg")
        p += used
    return out

def trivial16(px, w):
    return [(("img", px[i:i + w]), "s" if w <= 31 else "x" if w <= 287 else "m") for i in range(0, len(px), w)]

def widen565(v):
    def nearest(c, m): return (2 * c * 255 + m) // (2 * m)
    return bytes([nearest(v & 31, 31), nearest((v >> 5) & 63, 63), nearest(v >> 11, 31), 255])

def flip(px, w, h):
    return [v for y in range(h - 1, -1, -1) for v in px[y * w:(y + 1) * w]]

def case16(img_td, w, h, enc):
    """img_td: flat top-down u16 image; enc: list of (order, form) for the bottom-up raster"""
    stream = b"".join(ser16(o, f) for (o, f) in enc)
    want = b"".join(widen565(v) for v in img_td)
    return ("ord16 %d %d %s %s" % (w, h, hx(stream), ",".join(txt16(o, f) for (o, f) in enc)), "ok " + summ(want))

# ------------------------------------------------------------------ images
def gen_img16(w, h, rng):
    mode = rng.choice(["noise2", "noise3", "vrepeat", "xorrows", "masks", "runs", "dither", "mixed", "mixed", "bw", "special"])
    pal = [rng.randrange(65536) for _ in range(3)] + [0, WHITE]
    bu = []   # bottom-up rows
    for y in range(h):
        prev = bu[-1] if bu else None
        m = mode if mode != "mixed" else rng.choice(["noise2", "vrepeat", "xorrows", "masks", "runs", "dither", "bw", "special"])
        if m == "noise2": row = [rng.choice(pal[:2]) for _ in range(w)]
        elif m == "noise3": row = [rng.choice(pal) for _ in range(w)]
        elif m == "bw": row = [rng.choice([0, WHITE]) for _ in range(w)]
        elif m == "vrepeat": row = list(prev) if prev and rng.random() < 0.8 else [rng.choice(pal[:2]) for _ in range(w)]
        elif m == "xorrows":
            f = rng.choice(pal)
            row = [(v ^ f) for v in prev] if prev else [f] * w
        elif m == "masks":
            f = rng.choice(pal + [WHITE])
            row = [((prev[x] if prev else 0) ^ (f if rng.random() < 0.5 else 0)) for x in range(w)]
        elif m == "special":
            # groups of 8 pixels following the F9 (mask 0x03) / FA (mask 0x05) pattern against the line below, white foreground
            row = []
            while len(row) < w:
                mk = rng.choice([3, 5, 0, 255])
                for i in range(8):
                    x = len(row)
                    if x < w: row.append((prev[x] if prev else 0) ^ (WHITE if (mk >> i) & 1 else 0))
        elif m == "runs":
            row = []
            while len(row) < w: row += [rng.choice(pal)] * rng.choice([1, 2, 3, 8, 9, 20, 40])
            row = row[:w]
        else:
            c1, c2 = rng.choice(pal), rng.choice(pal)
            row = [(c1 if x % 2 == 0 else c2) for x in range(w)]
        # sprinkle single-pixel changes so that runs get interrupted and BG runs follow each other
        if rng.random() < 0.4:
            for _ in range(rng.randrange(1, 4)):
                x = rng.randrange(w); row[x] = (prev[x] ^ WHITE) if (prev and rng.random() < 0.7) else rng.choice(pal)
        bu.append(row)
    return [v for row in bu for v in row]   # flat bottom-up

def rle16_cases(tier, rng):
    quick = tier == "quick"
    out = []
    def add(px, w, h, enc):
        assert sem16(w, [o for (o, f) in enc]) == px, "generator bug: encoding does not describe the image"
        out.append(case16(flip(px, w, h), w, h, enc))
    # exhaustive tiny images over a 3-colour palette
    pal = [0, WHITE, 0x1234]
    for (w, h) in [(1, 1), (1, 2), (2, 1), (2, 2)]:
        n = w * h
        for code in range(3 ** n):
            px = [pal[(code // 3 ** i) % 3] for i in range(n)]
            add(px, w, h, trivial16(px, w))
            for _ in range(4 if quick else 12): add(px, w, h, encode16(px, w, rng))
    # random / structured images
    sizes = [(1, 1), (2, 2), (3, 2), (1, 9), (9, 1), (4, 4), (7, 3), (8, 8), (9, 9), (15, 4), (16, 3), (17, 5), (31, 4), (32, 2), (33, 3), (64, 5), (64, 64), (40, 30)]
    reps = 120 if quick else 2500
    prefs = [None, None, ("bg", "fg", "setfg"), ("fgbg", "setfgbg", "s1", "s2"), ("col", "dith", "wh", "bl"), ("bg",), ("img", "col")]
    for (w, h) in sizes:
        k = reps if w * h <= 600 else max(4, reps // 10)
        for i in range(k):
            px = gen_img16(w, h, rng)
            add(px, w, h, encode16(px, w, rng, prefer=prefs[i % len(prefs)]))
            if i % 10 == 0: add(px, w, h, trivial16(px, w))
    # long runs so that the extended and mega-mega forms carry real counts (vertical repeats: one BG/FG run over many lines)
    for (w, h) in [(64, 6), (50, 8), (300, 2), (17, 40)] + ([] if quick else [(64, 64), (300, 4), (100, 30)]):
        for _ in range(25 if quick else 300):
            base = [rng.choice([0, WHITE, 0x1234]) for _ in range(w)] if rng.random() < 0.5 else [0x0F0F] * w
            f = rng.choice([WHITE, 0x00FF])
            bu = [base]
            for y in range(1, h):
                r = rng.random()
                bu.append(list(bu[-1]) if r < 0.5 else [v ^ f for v in bu[-1]] if r < 0.8 else [rng.choice([0, 0x1234])] * w)
            px = [v for row in bu for v in row]
            add(px, w, h, encode16(px, w, rng, prefer=rng.choice([("bg", "fg", "setfg"), ("col", "bg"), ("fgbg", "setfgbg")])))
    return out

# ------------------------------------------------------------------ planar RLE (MS-RDPEGDI 3.1.9.2)
def plane_segments(vals, prev, rng):
    if prev is None: syms = list(vals)
    else:
        syms = []
        for v, pv in zip(vals, prev):
            d = (v - pv) & 255
            if d >= 128: d -= 256
            syms.append(2 * d if d >= 0 else -2 * d - 1)
    segs = []; i = 0; n = len(syms); color = 0
    while i < n:
        r = rng.randrange(0, min(15, n - i) + 1)
        while True:
            last = syms[i + r - 1] if r else color
            j = i + r; avail = 0
            while j + avail < n and syms[j + avail] == last: avail += 1
            run = min(47, rng.randrange(0, avail + 1))
            if run in (1, 2): run = 0
            if r == 0 and run == 0:
                r = 1; continue
            break
        if run >= 16:
            if r: segs.append(("r", syms[i:i + r], 0))
            segs.append(("l", run))
        else:
            segs.append(("r", syms[i:i + r], run))
        color = last; i = j + run
    return segs

def ser_seg(s):
    if s[0] == "l": return bytes([((s[1] - 32) << 4) | 2]) if s[1] >= 32 else bytes([((s[1] - 16) << 4) | 1])
    return bytes([(len(s[1]) << 4) | s[2]]) + bytes(s[1])
def txt_seg(s):
    return "l%d" % s[1] if s[0] == "l" else "r%s.%d" % (hx(bytes(s[1])), s[2])

def planar_case(img, w, h, rng):
    """img: h rows top-down of (b,g,r,a)"""
    stream = b"\x10"; ptxt = []
    for comp in (3, 2, 1, 0):
        prev = None; lines = []
        for y in range(h - 1, -1, -1):
            vals = [img[y][x][comp] for x in range(w)]
            segs = plane_segments(vals, prev, rng)
            stream += b"".join(ser_seg(s) for s in segs)
            lines.append(",".join(txt_seg(s) for s in segs))
            prev = vals
        ptxt.append(";".join(lines))
    want = b"".join(bytes(px) for row in img for px in row)
    return ("pl32 %d %d %s %s" % (w, h, hx(stream), "/".join(ptxt)), "ok " + summ(want))

def rand_img32(w, h, rng):
    mode = rng.choice(["flat", "noise", "rows", "small", "gradient", "vrepeat"])
    if mode == "flat":
        c = tuple(rng.randrange(256) for _ in range(4)); return [[c] * w for _ in range(h)]
    if mode == "rows":
        rows = [tuple(rng.randrange(256) for _ in range(4)) for _ in range(h)]; return [[rows[y]] * w for y in range(h)]
    if mode == "small":
        pal = [tuple(rng.randrange(256) for _ in range(4)) for _ in range(2)]
        return [[rng.choice(pal) for _ in range(w)] for _ in range(h)]
    if mode == "gradient":
        return [[((x * 3 + y) & 255, (y * 5) & 255, (255 - x) & 255, 255) for x in range(w)] for y in range(h)]
    if mode == "vrepeat":
        row = [tuple(rng.randrange(256) for _ in range(4)) for _ in range(w)]
        rows = [row]
        for _ in range(h - 1): rows.append(rows[-1] if rng.random() < 0.7 else [tuple((c + rng.choice([0, 1, 255, 128])) & 255 for c in p) for p in rows[-1]])
        return rows
    return [[tuple(rng.randrange(256) for _ in range(4)) for _ in range(w)] for _ in range(h)]

def planar_cases(tier, rng):
    out = []
    sizes = [(1, 1), (1, 2), (2, 1), (2, 2), (3, 3), (15, 2), (16, 2), (17, 3), (31, 2), (32, 3), (33, 2), (47, 2), (48, 3), (49, 2), (64, 4), (64, 64), (100, 3)]
    reps = 80 if tier == "quick" else 1500
    for (w, h) in sizes:
        for _ in range(reps if w * h <= 1000 else max(3, reps // 10)):
            out.append(planar_case(rand_img32(w, h, rng), w, h, rng))
    # exhaustive tiny: 1x1 and 2x1 images over byte values {0, 1, 255} per channel (first-line coding) and 1x2 (delta coding)
    vals = [0, 1, 128, 255]
    for a in vals:
        for b in vals:
            out.append(planar_case([[(a, b, a ^ b, 255)]], 1, 1, rng))
            out.append(planar_case([[(a, a, a, a)], [(b, b, b, b)]], 1, 2, rng))
    return out

# ------------------------------------------------------------------ uncompressed
def raw_cases(tier, rng):
    out = []
    sizes = [(1, 1), (1, 2), (2, 1), (2, 2), (3, 5), (8, 8), (17, 9), (64, 64), (256, 129), (300, 300)]
    for (w, h) in sizes:
        for _ in range(3 if tier == "quick" else 10):
            td = [rng.randrange(65536) for _ in range(w * h)]
            wire = b"".join(le16b(v) for v in flip(td, w, h))
            out.append(("bmp %d %d 16 0 %s" % (w, h, hx(wire)), "ok " + summ(b"".join(widen565(v) for v in td))))
            if w * h <= 70000:
                rows = [bytes(rng.randrange(256) for _ in range(4 * w)) for _ in range(h)]
                out.append(("bmp %d %d 32 0 %s" % (w, h, hx(b"".join(reversed(rows)))), "ok " + summ(b"".join(rows))))
    # all 65536 colours through the widening
    td = list(range(65536))
    wire = b"".join(le16b(v) for v in flip(td, 256, 256))
    out.append(("bmp 256 256 16 0 %s" % hx(wire), "ok " + summ(b"".join(widen565(v) for v in td))))
    # ... and through the interleaved decoder (colour images, 256 per line)
    px = flip(td, 256, 256)
    out.append(case16(td, 256, 256, trivial16(px, 256)))
    return out

def gen_cases(tier, rng):
    return raw_cases(tier, rng) + rle16_cases(tier, rng) + planar_cases(tier, rng)

def classify(line, out):
    t = out.split()
    return (t[0] if t else "none") + ("+specdiff" if " spec:" in out else "")

def _sz(v):
    for k, b in enumerate([1, 2, 4, 9, 17, 33, 64, 300]):
        if v <= b: return k
    return 9

def shape(line):
    t = line.split()
    if t[0] == "ord16":
        kinds = sorted(set(".".join(tok.split(".")[:2]) for tok in t[4].split(",")))
        return ("ord16", _sz(int(t[1])), _sz(int(t[2])), tuple(kinds))
    if t[0] == "pl32":
        segs = t[4].replace("/", ",").replace(";", ",").split(",")
        kinds = sorted(set((s[:1] + (s.rsplit(".", 1)[1] if s.startswith("r") and "." in s else "")) for s in segs if s))
        return ("pl32", _sz(int(t[1])), _sz(int(t[2])), tuple(kinds))
    return (t[0], _sz(int(t[1])), _sz(int(t[2])), t[3])

def nontrivial(line, out):
    return out.startswith("ok ")

def oracle(line, out, expect):
    """the property: a conformant encoding of an image decodes to exactly that image"""
    res = out.split(" #")[0]
    if expect is not None and res != expect:
        return "the decoded bitmap is not the source image: expected `%s`, implementation returned `%s`" % (expect, res)
    return None
