"""C05: hostile server bytes during connection setup never crash the client.
A valid server conversation (reference encoders of gen/rdpconn.py), then faults at every position of every
server message of the connection sequence, plus all short byte strings at every parser entry.  Judged:
no panic / abort / spin, largest single allocation within the 16-bit bound."""
import re
from common import *
from rdp import *
from rdpconn import *

GROUP = "connect"
MODEL_FILES = ["coq/Msg.v", "coq/LayoutsConnect.v", "coq/Connect.v", "coq/BerYasna.v", "coq/ConnectRun.v", "coq/Tpkt.v", "coq/Link.v"]
PROFILES = ["debug", "release"]
RULE = ("a valid server conversation (connection confirm, MCS connect-response with GCC blocks, attach confirm, two join "
        "confirms in either HashMap order, licence valid-client / new-licence) against x224::Client::connect + "
        "mcs::Client::connect + sec::connect (and through the public Connector::connect) over an in-memory transport, client configurations {offered 0/1/3/11, with / "
        "without authenticator, restricted admin}; then for EVERY byte position of EVERY server frame: all 256 values "
        "(thorough; quick: all 256 at the 8-bit fields, a 24-value boundary set elsewhere); every offset as 16-bit LE and BE "
        "field over a boundary set containing k-1, k for every k the code subtracts (4, 6, 8, 1001-wrap 64534/64535) and as "
        "32-bit LE field; the same inside the GCC and licence payloads with all enclosing BER / PER / MCS / TPKT lengths "
        "recomputed; every truncation point with and without recomputed lengths; extensions; BER length forms (long forms "
        "of 1..9 bytes, indefinite, lengths that overflow position+length) at every TLV; GCC block sets (missing / duplicate "
        "/ unknown / reordered blocks, block lengths 0..8, channel counts up to 0xffff); pairs of faults (thorough); ALL "
        "byte strings of length <= 2 at each parser entry (connection confirm, connect-response, GCC user data, attach "
        "confirm, join confirm, MCS data header, security header, licence; thorough: all length-2 strings at every entry, plus all length-3 strings over a "
        "41-value alphabet and seeded random strings of length 3..8 at the connection-confirm, connect-response, GCC and licence entries); seeded random corruption.  Non-trivial = distinct "
        "(entry, number of frames consumed, outcome kind).")
TRUSTED_BASE = ["Coq 8.16.1 kernel (vm_compute for the per-layout `safe` obligations and the non-vacuity run)",
                "hand-written models coq/Msg.v, coq/LayoutsConnect.v, coq/Connect.v, coq/BerYasna.v tied to /repo by this correspondence run",
                "extraction (ExtrOcamlBasic) + ocaml/connect/driver.ml", "Rust harness/src/connect.rs + counting allocator (harness/src/alloc.rs)",
                "gen/rdpconn.py reference encoders of the server side",
                "external code modelled, not verified: yasna (BER parser; its behaviour on the connect-response template is modelled in BerYasna.v and compared on every case), native-tls / OpenSSL (handshake = oracle), CredSSP (C07)"]
ASSUMPTIONS = ["the theorems quantify over the BER parser / TLS handshake / CredSSP exchange as functions that return Ok or Err (never unwind) and hand on bytes; for yasna 0.3.2 this is FALSE on one class of inputs (known finding C05-yasna-length-overflow)",
               "the client's own writes are modelled at message level (which message, with the server-dependent values); transport write failures are C14's",
               "memory 'out of proportion' is made precise as: no single allocation request above 2*65536+4096 bytes on the implementation (Vec growth doubles); in the model every wire-sized buffer is <= 2*65535 (a 16-bit count of 16-bit channel ids)"]
ALLOC_LIMIT = 2 * 65536 + 4096

VB = [0, 1, 2, 3, 4, 5, 6, 7, 8, 0x0b, 0x0c, 0x10, 0x14, 0x2e, 0x3e, 0x66, 0x68, 0x7f, 0x80, 0x81, 0x82, 0x88, 0xfe, 0xff]
V16Q = [0, 1, 3, 4, 5, 7, 8, 9, 0x7f, 0x80, 0xff, 0x100, 0x3eb, 0x7fff, 0x8000, 0xfc16, 0xfc17, 0xffff]
V16 = sorted(set(BOUND16 + list(range(0, 21)) + [0x0c01, 0x0c02, 0x0c03, 0x0c04, 0xc001, 1003, 1004, 0xfc16, 0xfc17, 0xfc18]))
V32 = [0, 1, 2, 3, 4, 5, 6, 7, 8, 9, 0x0b, 0x0c, 0x0d, 0x80001, 0x80004, 0x80005, 0x7fffffff, 0x80000000, 0xfffffffe, 0xffffffff]
ALPHA3 = sorted(set(VB + [0x0a, 0x30, 0x2a, 0x4d, 0x63, 0x44, 0x6e, 0xc0, 0x70, 0x40, 0x03, 0xeb, 0x76, 0x7c, 0x15, 0x12, 0x13]))

UID = 1004

def be_len_forms(n):
    """encodings of a BER length around n, legal and hostile"""
    out = [ber_len(n), ber_len(n, 1), ber_len(n, 2), ber_len(n, 3), ber_len(n, 4), ber_len(n, 8), ber_len(n, 9), bytes([0x80]), bytes([0xff]),
           bytes([0x81]), bytes([0x84, 0xff, 0xff, 0xff, 0xff]), ber_len(n + 1), ber_len(max(0, n - 1)), ber_len(0), ber_len(0x7f), ber_len(0x80),
           bytes([0x88]) + b"\xff" * 8, bytes([0x88]) + b"\xff" * 7 + b"\x00", bytes([0x88]) + b"\xff" * 7 + b"\xc0",
           bytes([0x89, 0]) + b"\xff" * 8, bytes([0x89]) + b"\xff" * 9, bytes([0x88, 0x80]) + bytes(7), bytes([0x88, 0x7f]) + b"\xff" * 7,
           bytes([0xfe]) + bytes(118) + b"\xff" * 8]
    return out

def ber_variants(gcc):
    """connect-response encodings with every TLV header varied: (name, bytes)"""
    out = []
    parts = [("enum", 10, (0).to_bytes(1, "big")), ("int", 2, b"\x00"),
             ("dp", 0x30, b"".join(ber_int(v) for v in (22, 3, 0, 1, 0, 1, 0xfff8, 2))), ("ud", 4, gcc)]
    def build(override=None, outer=None, outer_tag=b"\x7f\x66", tail=b"", inner_tail=b""):
        inner = b""
        for (nm, tag, content) in parts:
            if override and override[0] == nm: inner += override[1]
            else: inner += ber_tlv(tag, content)
        inner += inner_tail
        return outer_tag + (ber_len(len(inner)) if outer is None else outer) + inner + tail
    for (nm, tag, content) in parts:
        for lf in be_len_forms(len(content)):
            out.append(("ber:len:" + nm, build((nm, bytes([tag]) + lf + content))))
        for t in (0, 1, 2, 4, 5, 10, 0x30, 0x24, 0x1f, 0x3f, 0x7f, 0x80, 0xa0, 0xff):
            out.append(("ber:tag:" + nm, build((nm, bytes([t]) + ber_len(len(content)) + content))))
        out.append(("ber:drop:" + nm, build((nm, b""))))
        out.append(("ber:dup:" + nm, build((nm, ber_tlv(tag, content) * 2))))
    n_inner = sum(len(ber_tlv(tag, content)) for (_, tag, content) in parts)
    for lf in be_len_forms(n_inner):
        out.append(("ber:len:outer", build(outer=lf)))
    for ot in (b"\x7f\x65", b"\x5f\x66", b"\x7f\x81\x66", b"\x7f\x80\x66", b"\x7f\x1e", b"\x7f", b"\x66", b"\x30", b"\x7f\xff\xff\xff\xff\xff\xff\xff\xff\xff\x7f", b"\xff\x66"):
        out.append(("ber:tag:outer", build(outer_tag=ot)))
    out.append(("ber:tail", build(tail=b"\x00")))
    out.append(("ber:tail", build(tail=b"\x00\x00")))
    out.append(("ber:innertail", build(inner_tail=b"\x05\x00")))
    # integers: content rules of read_u32 / read_enum
    for content in (b"", b"\x7f", b"\x80", b"\xff", b"\x00\x7f", b"\x00\x80", b"\x00\xff\xff\xff\xff", b"\x01\x00\x00\x00\x00", b"\x00" * 9, b"\x00\x80" + bytes(7), b"\x01" + bytes(8), bytes(10), b"\x7f" + b"\xff" * 7, b"\xff\x7f", b"\xff\x80"):
        out.append(("ber:int", build(("int", ber_tlv(2, content)))))
        out.append(("ber:enum", build(("enum", ber_tlv(10, content)))))
        out.append(("ber:dpint", build(("dp", ber_tlv(0x30, ber_tlv(2, content) + b"".join(ber_int(v) for v in (3, 0, 1, 0, 1, 0xfff8, 2)))))))
    for k in (0, 1, 7, 9):
        out.append(("ber:dpcount", build(("dp", ber_tlv(0x30, b"".join(ber_int(1) for _ in range(k)))))))
    # indefinite lengths and constructed octet strings (legal BER)
    half = len(gcc) // 2
    out.append(("ber:indef:outer", b"\x7f\x66\x80" + b"".join(ber_tlv(tag, c) for (_, tag, c) in parts) + b"\x00\x00"))
    out.append(("ber:indef:outer-noeoc", b"\x7f\x66\x80" + b"".join(ber_tlv(tag, c) for (_, tag, c) in parts)))
    out.append(("ber:indef:outer-eoc1", b"\x7f\x66\x80" + b"".join(ber_tlv(tag, c) for (_, tag, c) in parts) + b"\x00\x01"))
    out.append(("ber:cons:ud", build(("ud", ber_tlv(0x24, ber_tlv(4, gcc[:half]) + ber_tlv(4, gcc[half:]))))))
    out.append(("ber:cons:ud-indef", build(("ud", b"\x24\x80" + ber_tlv(4, gcc[:half]) + ber_tlv(4, gcc[half:]) + b"\x00\x00"))))
    out.append(("ber:cons:ud-nested", build(("ud", ber_tlv(0x24, ber_tlv(0x24, ber_tlv(4, gcc[:half])) + ber_tlv(4, gcc[half:]))))))
    out.append(("ber:cons:ud-bad", build(("ud", ber_tlv(0x24, ber_tlv(4, gcc[:half]) + ber_tlv(2, b"\x01"))))))
    out.append(("ber:cons:ud-empty", build(("ud", ber_tlv(0x24, b"")))))
    out.append(("ber:cons:ud-indef-prim", build(("ud", b"\x04\x80" + gcc + b"\x00\x00"))))
    for depth in (98, 99, 100, 101, 102, 130):
        x = ber_tlv(4, gcc)
        for _ in range(depth): x = ber_tlv(0x24, x)
        out.append(("ber:cons:depth", build(("ud", x))))
        x = ber_tlv(4, gcc)
        for _ in range(depth): x = b"\x24\x80" + x + b"\x00\x00"
        out.append(("ber:cons:depth-indef", build(("ud", x))))
    out.append(("ber:indef:dp", build(("dp", b"\x30\x80" + b"".join(ber_int(v) for v in (22, 3, 0, 1, 0, 1, 0xfff8, 2)) + b"\x00\x00"))))
    return out

def gcc_variants():
    core, sec, net = sc_core(), sc_security(), sc_net()
    out = []
    for blocks in (b"", core, net, sec, core + net, net + core, core + sec, sec + net, core + core + net, core + net + net, net + sec + core,
                   core + sec + net + gcc_block(0xc001, bytes(8)), gcc_block(0, b"") + core + net, core + net + gcc_block(0x0c04, fill(40, 1)),
                   core + sc_net(channels=(1004, 1005, 1006)), core + sc_net(channels=(1004,), count=0xffff), core + sc_net(count=0x8000),
                   core + sc_net(channels=(1004, 1005), count=1), core + sc_net(channels=(1004, 1005), count=3), core + sc_net(io=1004),
                   sc_core(0x00080001) + net, sc_core(0x00080004, None) + net, sc_core(0x00080004, 0, 0xffffffff) + net,
                   gcc_block(0x0c01, b"") + net, gcc_block(0x0c01, b"\x04\x00\x08") + net, core + gcc_block(0x0c03, b""), core + gcc_block(0x0c03, b"\xeb\x03"),
                   core + gcc_block(0x0c03, b"\xeb\x03\x01"), core + gcc_block(0x0c02, b"\x00")):
        out.append(("gcc:blocks", gcc_ccr(blocks)))
    for ln in list(range(0, 13)) + [0x7f, 0x80, 0xff, 0x100, 0x7fff, 0x8000, 0xfffe, 0xffff]:
        for (typ, body) in ((0x0c01, le32(0x80004) + le32(0)), (0x0c03, le16(1003) + le16(0)), (0x0c02, bytes(8)), (0x7777, bytes(4))):
            out.append(("gcc:blocklen", gcc_ccr(gcc_block(typ, body, length=ln) + sc_core() + sc_net())))
            out.append(("gcc:blocklen-last", gcc_ccr(sc_core() + sc_net() + gcc_block(typ, body, length=ln))))
    blocks = core + sec + net
    for l2 in list(range(0, len(blocks) + 6)) + [0x7f, 0x80, 0xff, 0x3fff, 0x7fff]:
        out.append(("gcc:len2", gcc_ccr(blocks, length2=l2)))
    for l1 in (0, 1, 0x2a, 0x7f, 0x80, 0xff, 0x7fff):
        out.append(("gcc:len1", gcc_ccr(blocks, length1=l1)))
    for key in (b"McDn", b"Duca", b"McD", b"McDnn", b"mcDn", b"McDx", b""):
        out.append(("gcc:key", gcc_ccr(blocks, key=key)))
    for node in (0, 1, 0xfc16, 0xfc17, 0xffff):
        out.append(("gcc:node", gcc_ccr(blocks, node=node)))
    return out

def wrap_mcs(gcc):
    return tpkt(x224_data(connect_response(gcc)))

def lic_wrap(lic):
    return license_frame(lic, uid=UID)

def gen_cases(tier, rng):
    quick = tier == "quick"
    cases = []
    base = conversation(uid=UID, order="g")
    def add(frames, tag, **kw):
        cases.append((conn_case(frames, **kw), ("c05", tag)))
    def at(k, frame, tag, **kw):
        """valid frames before step k, the hostile frame, the valid rest"""
        order = kw.get("order", "g")
        conv = base if order == "g" else conversation(uid=UID, order="u")
        add(conv[:k] + [frame] + conv[k + 1:], "%s:%s" % (STEPS[k], tag), **kw)

    # ---- valid conversations over the configurations
    for order in "gu":
        for uid in (1001, 1002, 1003, 1004, 1005, 2000, 0xffff):
            for ver in (0x00080001, 0x00080004, 0x00080005):
                add(conversation(uid=uid, order=order, version=ver), "valid", order=order)
    for sel in (0, 1, 2, 3, 4, 8, 9, 0x0b, 0x100, 0xffffffff):
        for (off, auth, ram) in ((0, 0, 0), (1, 0, 0), (3, 1, 0), (3, 0, 0), (11, 1, 1), (0, 1, 1)):
            add(conversation(selected=sel), "valid:select", offered=off, auth=auth, ram=ram)
    add(conversation(), "valid:creds", dom=b"domain", user=b"administrator", pw=b"secret password")
    add(conversation(version=0x00080001), "valid:creds", dom=b"", user=b"", pw=b"", ram=1)
    add(conversation()[:5] + [lic_wrap(lic_new_license())], "valid:newlicense")
    add(conversation()[:5] + [license_frame(uid=UID, chan=UID)], "valid:userchan")
    # ---- the public entry point Connector::connect (offers SSL [| HYBRID]): the server selects SSL and the rest of the
    # conversation, faults included, runs inside TLS (in-process acceptor of harness/src/negotiate.rs)
    def addc(frames, tag, offered=1, ram=0, order="g", **kw):
        cases.append((neg_case(frames[0] if frames else None, frames[1:], api="connector", offered=offered, auth=1, ram=ram, check=0, ident="0", order=order, **kw),
                      ("c05", "connector:" + tag)))
    base_tls = conversation(uid=UID, selected=1, order="g")
    for (off, ram) in ((1, 0), (3, 0), (3, 1), (1, 1)):
        for order in "gu":
            for sel in (0, 1, 2, 8, 5):
                addc(conversation(selected=sel, order=order, version=0x00080001 if ram else 0x00080004), "valid", offered=off, ram=ram, order=order,
                     dom=b"dom", user=b"user", pw=b"password")
        for k in range(6):
            fr = base_tls[k]
            for i in range(len(fr)):
                for v in (0, 1, 0x7f, 0x80, 0xff, fr[i] ^ 1, fr[i] ^ 0x10):
                    if v != fr[i]: addc(base_tls[:k] + [fr[:i] + bytes([v]) + fr[i + 1:]] + base_tls[k + 1:], STEPS[k] + ":byte", offered=off, ram=ram)
            for cut in range(4, len(fr), 2):
                addc(base_tls[:k] + [tpkt(fr[4:cut])] + base_tls[k + 1:], STEPS[k] + ":trunc", offered=off, ram=ram)
    add([], "silent")
    for k in range(1, 6): add(conversation()[:k], "silent")

    # ---- raw faults at every byte position of every frame (both join orders for the join frames)
    for k in range(6):
        orders = ("g", "u") if k in (3, 4) else ("g",)
        for order in orders:
            conv = base if order == "g" else conversation(uid=UID, order="u")
            fr = conv[k]
            eight = set(range(4, len(fr))) if k in (0, 2, 3, 4) else set(range(4, 20)) | set(range(len(fr) - 30, len(fr)))
            for i in range(len(fr)):
                vals = range(256) if (not quick or (i in eight and (k != 1 or i % 2 == 0 or i < 24))) else VB
                if quick and k == 1 and 24 <= i < len(fr) - 30: vals = VB if i % 2 else [0, 1, 0x7f, 0x80, 0xff]
                for v in vals:
                    if v != fr[i]: at(k, fr[:i] + bytes([v]) + fr[i + 1:], "byte", order=order)
            for i in range(len(fr) - 1):
                for v in (V16Q if quick else V16):
                    at(k, fr[:i] + le16(v) + fr[i + 2:], "u16le", order=order)
                    at(k, fr[:i] + be16(v) + fr[i + 2:], "u16be", order=order)
            for i in range(len(fr) - 3):
                if quick and k == 1 and i % 3: continue
                for v in (V32[::2] if quick else V32):
                    at(k, fr[:i] + le32(v) + fr[i + 4:], "u32le", order=order)
            for cut in range(len(fr)):
                at(k, fr[:cut], "trunc-raw", order=order)                       # the TPKT length now promises more than is there
                if cut >= 4: at(k, tpkt(fr[4:cut]), "trunc", order=order)         # consistent TPKT length
            for ext in (b"\x00", b"\xff" * 5, fill(300, 3), fr[4:]):
                at(k, tpkt(fr[4:] + ext), "ext", order=order)
            at(k, bytes([0, len(fr) - 2]) + fr[4:], "fastpath", order=order)
            at(k, bytes([0x80, 0x80 | ((len(fr) - 1) >> 8), (len(fr) - 1) & 255]) + fr[4:], "fastpath", order=order)
            for _ in range(40 if quick else 1500):
                b = bytearray(fr)
                for _ in range(rng.randrange(1, 5)):
                    b[rng.randrange(len(b))] = rng.randrange(256)
                at(k, bytes(b), "rand", order=order)

    # ---- faults inside the GCC user data / the licence with every enclosing length recomputed
    gcc = gcc_ccr()
    lic = lic_valid_client()
    for (k, inner, wrap, nm) in ((1, gcc, wrap_mcs, "gcc"), (5, lic, lic_wrap, "lic"), (5, sec_license(), lambda b: slow_frame(b, uid=UID), "sec")):
        for i in range(len(inner)):
            for v in (range(256) if (not quick or nm != "gcc" or i < 24) else VB):
                if v != inner[i]: at(k, wrap(inner[:i] + bytes([v]) + inner[i + 1:]), nm + ":byte")
        for i in range(len(inner) - 1):
            for v in (V16Q if quick else V16):
                at(k, wrap(inner[:i] + le16(v) + inner[i + 2:]), nm + ":u16le")
                if not quick or i < 24: at(k, wrap(inner[:i] + be16(v) + inner[i + 2:]), nm + ":u16be")
        for i in range(len(inner) - 3):
            for v in (V32[::2] if quick else V32):
                at(k, wrap(inner[:i] + le32(v) + inner[i + 4:]), nm + ":u32le")
        for cut in range(len(inner)):
            at(k, wrap(inner[:cut]), nm + ":trunc")
        for ext in (b"\x00", b"\xff" * 5, fill(300, 5), inner):
            at(k, wrap(inner + ext), nm + ":ext")
        for _ in range(60 if quick else 3000):
            b = bytearray(inner)
            for _ in range(rng.randrange(1, 4)):
                b[rng.randrange(len(b))] = rng.randrange(256)
            at(k, wrap(bytes(b)), nm + ":rand")
        if not quick:
            for _ in range(4000):
                b = bytearray(inner)
                i, j = rng.randrange(len(b) - 1), rng.randrange(len(b) - 1)
                b[i:i + 2] = le16(rng.choice(V16)); b[j:j + 2] = le16(rng.choice(V16))
                at(k, wrap(bytes(b)), nm + ":pair")
    for (tag, g) in gcc_variants():
        at(1, wrap_mcs(g), tag)
        cases.append(("gcc " + hx(g), ("c05", "direct:" + tag)))
    for (tag, b) in ber_variants(gcc):
        at(1, tpkt(x224_data(b)), tag)
    # licence messages
    for mt in range(256):
        at(5, lic_wrap(lic_preamble(mt, lic_error())), "lic:type")
        at(5, lic_wrap(lic_preamble(mt, b"")), "lic:type-empty")
    for sz in list(range(0, 24)) + [0x7f, 0x80, 0xff, 0x100, 0x7fff, 0x8000, 0xfffe, 0xffff]:
        for mt in (0xff, 3, 1):
            at(5, lic_wrap(lic_preamble(mt, lic_error(), size=sz)), "lic:size")
            cases.append(("lic " + hx(lic_preamble(mt, lic_error(), size=sz)), ("c05", "direct:lic:size")))
    for code in V32:
        for tr in (0, 1, 2, 3, 4, 5, 0xffffffff):
            at(5, lic_wrap(lic_valid_client(code=code, transition=tr)), "lic:code")
    for bl in list(range(0, 6)) + [0x7f, 0xff, 0x100, 0x7fff, 0xffff]:
        at(5, lic_wrap(lic_valid_client(blob=lic_blob(data=b"\x01\x02", length=bl))), "lic:blob")
        at(5, lic_wrap(lic_preamble(0xff, lic_error(blob=lic_blob(data=b"\x01\x02", length=bl)), size=16 + 4)), "lic:blob")
    for fl in V16:
        at(5, slow_frame(sec_license(flags=fl), uid=UID), "sec:flags")
    # MCS header of the licence frame
    for (ini, ch) in ((UID, 1003), (UID, UID), (UID, 1005), (1001, 1003), (0xffff + 1001 - 0x3e9, 1003), (UID, 0), (UID, 0xffff)):
        at(5, license_frame(uid=ini, chan=ch), "sec:mcs")
    at(5, tpkt(x224_data(bytes([8 << 2, 0x80]))), "sec:disconnect")

    # ---- the framing entry itself (tpkt::Client::read is the first parser of every step): every header form with a
    #      declared length around its own header size, raw on the wire at each step of the conversation
    raw_hdrs = []
    for a in (0x00, 0x02, 0x44, 0xc0, 0xff):
        raw_hdrs += [bytes([a, 0x80, n]) for n in range(0, 6)] + [bytes([a, 0x80 | 1, n]) for n in (0, 1)]
        raw_hdrs += [bytes([a, n]) for n in range(0, 5)] + [bytes([a, 0x7f]), bytes([a, 0xff, 0xff])]
    raw_hdrs += [bytes([3, r, 0, n]) for r in (0, 0xff) for n in range(0, 8)] + [bytes([3, 0, 0xff, 0xff]), bytes([3, 0, 0x80, 0x00])]
    for k in range(6):
        for h in raw_hdrs:
            at(k, h, "frame:hdr")
            at(k, h + bytes(8), "frame:hdr+8")
    # ---- all short byte strings at every parser entry
    one = [b""] + [bytes([a]) for a in range(256)]
    two = [bytes([a, b]) for a in range(256) for b in range(256)]
    two_q = [bytes([a, b]) for a in VB for b in VB]
    def strings(full2, with3):
        s = one + (two if (full2 or not quick) else two_q)
        if not quick and with3:
            s = s + [bytes([a, b, c]) for a in ALPHA3 for b in ALPHA3 for c in ALPHA3]
            s = s + [bytes(rng.randrange(256) for _ in range(rng.randrange(3, 9))) for _ in range(20000)]
        return s
    sdi = lambda b: tpkt(x224_data(bytes([26 << 2]) + be16(UID - 1001) + be16(1003) + b"\x70" + per_len(len(b)) + b))
    # (step, wrapper, tag, all 2-byte strings already in the quick tier, length-3 strings in the thorough tier)
    entries = [(0, lambda b: tpkt(b), "entry:cc", True, True), (1, lambda b: tpkt(x224_data(b)), "entry:mcs", True, True),
               (1, wrap_mcs, "entry:gcc", False, False), (2, lambda b: tpkt(x224_data(b)), "entry:attach", True, False),
               (3, lambda b: tpkt(x224_data(b)), "entry:join1", False, False), (4, lambda b: tpkt(x224_data(b)), "entry:join2", False, False),
               (5, lambda b: tpkt(x224_data(b)), "entry:mcsdata", False, False), (5, sdi, "entry:sec", True, False),
               (5, lambda b: sdi(le16(0x80) + le16(0) + b), "entry:lic", False, False)]
    for (k, wrap, tag, full2, with3) in entries:
        for sb in strings(full2, with3):
            add(base[:k] + [wrap(sb)], tag)
    for sb in strings(True, True):
        cases.append(("gcc " + hx(sb), ("c05", "direct:entry:gcc")))
        cases.append(("lic " + hx(sb), ("c05", "direct:entry:lic")))
    # short strings after a valid GCC / licence prefix (the parser is past its first reads)
    for cut in (7, 8, 21, 23, len(gcc) - 8):
        for sb in one + two_q:
            cases.append(("gcc " + hx(gcc[:cut] + sb), ("c05", "direct:gcc:tail")))
    for cut in (1, 2, 4, 8, 12, 14):
        for sb in one + two_q:
            cases.append(("lic " + hx(lic[:cut] + sb), ("c05", "direct:lic:tail")))
    return cases

def first(out):
    return out.split(" ")[0] if out else ""

def classify(line, out):
    f = first(out)
    if f.startswith("ok"): return "ok"
    return f

def shape(line):
    t = line.split()
    if t[0] in ("conn", "connector"): return "%s:%d" % (t[0], len(t) - 9)
    if t[0] == "neg": return "neg:%s:%d" % (t[1], len(t) - 13)
    return t[0]

def nontrivial(line, out):
    return True

def oracle(line, out, expect):
    f = first(out)
    if f in ("panic", "spin", "crashed") or out.startswith("crashed") or not f:
        return "the connection attempt ended in %s" % (f or "a dead process")
    if not (f.startswith("ok") or f.startswith("err:")): return "unexpected outcome " + out[:80]
    m = re.search(r"#a=(\d+)", out)
    if m and int(m.group(1)) > ALLOC_LIMIT:
        return "largest single allocation %s bytes exceeds %d for frames of at most 65535 bytes" % (m.group(1), ALLOC_LIMIT)
    return None
from ties import of as _tie_of; TIE_LAYOUTS, TIE_PINS, TIE_ENUMS = _tie_of("C05")   # static-tie lemmas (coq/Gen/Tie) this property depends on
