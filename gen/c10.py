"""C10: every bitmap rectangle the server sends reaches the application exactly once."""
from session import *

RULE = ("in state Data: sequences of 1-7 fast-path PDUs, 0-8 updates per PDU, 0-6 rectangles per bitmap update, every "
        "rectangle field at 16-bit boundaries, data lengths {0,1,2,255,256,..,large}, with / without compression header "
        "(flags 0, 1, 0x401, 0x400), short and long fast-path length forms, mixtures with pointer / synchronize / colour / "
        "unknown updates, every fast-path action byte's security flags.  Expected callbacks are computed by the generator "
        "from the structure it encoded (reference encoder gen/rdp.py).  Non-trivial = at least one rectangle; distinct = "
        "distinct (update-kind sequence, rect counts, flag pattern, length form).")
TRUSTED_BASE = ["Coq 8.16.1 kernel", "hand-written models coq/Msg.v, coq/LayoutsGlobal.v, coq/Global.v tied to /repo by this correspondence run",
                "extraction + ocaml/session/driver.ml", "Rust harness/src/session.rs + hooks", "gen/rdp.py reference encoder of fast-path updates (the oracle's source of truth)",
                "coq/RefFastPath.v reference encoder (the spec the theorems are stated against; agrees with gen/rdp.py on the golden PDU of C10_proofs.ex_wire_*)"]
ASSUMPTIONS = ["updates are unfragmented and uncompressed (updateHeader bits 4-7 zero) as negotiated by the client's capabilities",
               "whole frames are delivered (C13)"]

B16 = [0, 1, 2, 255, 256, 0x7fff, 0x8000, 0xfffe, 0xffff]

def rand_rect(rng, maxdata=300):
    f = rng.choice([0, 0, 1, 0x401, 0x400, 0x8, 0x409])
    v = lambda: rng.choice(B16) if rng.random() < 0.5 else rng.randrange(65536)
    n = rng.choice([0, 1, 2, 3, 7, 8, 255, 256, rng.randrange(0, maxdata)])
    data = fill(n, rng.randrange(256))
    l, t, r, b, w, h, bpp = v(), v(), v(), v(), v(), v(), rng.choice([8, 15, 16, 24, 32, 0, 65535, v()])
    enc = bitmap_rect(l, t, r, b, w, h, bpp, f, data)
    exp = "[%d.%d.%d.%d.%d.%d.%d.%d.%s]" % (l, t, r, b, w, h, bpp, f & 1, summ(data))
    return enc, exp

def rand_update(rng):
    """-> (bytes, [expected events])"""
    k = rng.random()
    if k < 0.55:
        rs = [rand_rect(rng) for _ in range(rng.choice([0, 1, 1, 2, 3, 6]))]
        return fp_bitmap([r[0] for r in rs]), [r[1] for r in rs]
    if k < 0.65: return fp_ptr_null(), []
    if k < 0.72: return fp_sync(), []
    if k < 0.80: return fp_color(xor=fill(rng.randrange(0, 20), 1), andm=fill(rng.randrange(0, 9), 2)), []
    if k < 0.86: return fp_ptr_pos(), []
    if k < 0.92: return fp_ptr_default(), []
    return fp_unknown(rng.choice([0, 2, 4, 7, 10, 11, 12, 13, 14, 15]), fill(rng.randrange(0, 10), 3)), []

def activation():
    uid = UID; sid = SHARE
    return [R(slow_frame(demand_active(share_id=sid))), R(slow_frame(synchronize())), R(slow_frame(control(4))),
            R(slow_frame(control(2, uid, 1002))), R(slow_frame(font_map()))]

def gen_cases(tier, rng):
    quick = tier == "quick"
    cases = []
    def add(pdus):
        """pdus: list of (frame bytes, [expected events])"""
        steps = activation() + [R(f) for f, _ in pdus]
        cases.append((case(steps), ("c10", tuple(tuple(e) for _, e in pdus))))
    # structured: each count of rectangles 0..6, each flag variant, each length form
    for n in range(0, 7):
        for f in (0, 1, 0x401, 0x400):
            rs = []
            for i in range(n):
                data = fill(i * 3 + (n % 2), i)
                rs.append((bitmap_rect(i, i + 1, i + 2, i + 3, 4, 2, 16, f, data), "[%d.%d.%d.%d.4.2.16.%d.%s]" % (i, i + 1, i + 2, i + 3, f & 1, summ(data))))
            upd = fp_bitmap([r[0] for r in rs])
            for long in (False, True):
                if not long and len(upd) + 2 > 0x7f: continue
                add([(fp_frame(upd, action=rng.choice([0, 0x40, 0x80, 0xc0]), long=long), [r[1] for r in rs])])
    # data length boundaries, incl. the largest that fits one fast-path PDU
    for n in [0, 1, 2, 255, 256, 1000, 16000, 32767 - 3 - 3 - 4 - 18]:
        data = fill(n, 7)
        add([(fp_frame(fp_bitmap([bitmap_rect(1, 2, 3, 4, 5, 6, 16, 0x401, data)])), ["[1.2.3.4.5.6.16.1.%s]" % summ(data)])])
    n = 32767 - 3 - 3 - 4 - 18 - 8
    add([(fp_frame(fp_bitmap([bitmap_rect(1, 2, 3, 4, 5, 6, 16, 1, fill(n, 9))])), ["[1.2.3.4.5.6.16.1.%s]" % summ(fill(n, 9))])])
    # other update kinds before / between / after bitmap updates
    r1, e1 = bitmap_rect(9, 8, 7, 6, 1, 1, 32, 0, b"\x01\x02\x03\x04"), "[9.8.7.6.1.1.32.0.%s]" % summ(b"\x01\x02\x03\x04")
    for other in [fp_ptr_null(), fp_sync(), fp_color(), fp_ptr_pos(), fp_ptr_default(), fp_unknown(7), fp_unknown(13, b""), fp_unknown(0, b"\x01\x00\x00")]:
        add([(fp_frame(other + fp_bitmap([r1]) + other + fp_bitmap([r1, r1]) + other), [e1, e1, e1])])
    # ---- boundaries of every guard / constant on the code path (C10 builder review)
    def rect(l, t, r, b, w, h, bpp, f, data, **kw):
        return (bitmap_rect(l, t, r, b, w, h, bpp, f, data, **kw), "[%d.%d.%d.%d.%d.%d.%d.%d.%s]" % (l, t, r, b, w, h, bpp, f & 1, summ(data)))
    def one(us_rects, **kw):
        """one PDU, one bitmap update"""
        add([(fp_frame(fp_bitmap([x[0] for x in us_rects]), **kw), [x[1] for x in us_rects])])
    tail = rect(11, 12, 13, 14, 3, 1, 24, 0, b"\xaa\xbb\xcc")          # a rectangle after the one under test shows any desynchronisation
    # the header test reads exactly bit 0 and bit 10 of flags; every other bit is irrelevant; is_compress = bit 0
    for f in (0x2, 0x3, 0x8, 0x101, 0x201, 0x801, 0x4001, 0x8001, 0x0200, 0x0800, 0x402, 0x403, 0xfbfe, 0xfbff, 0xfffe, 0xffff, 0x7ffe, 0x7fff):
        one([rect(1, 2, 3, 4, 5, 6, 16, f, b"\x10\x20\x30\x40\x50"), tail])
    # data / bitmapLength / cbCompMainBodySize boundaries, with and without the header, followed by another rectangle
    for f in (0, 1, 0x400, 0x401):
        for n in (0, 1, 2, 7, 8, 9, 247, 248, 255, 256, 257, 511, 512):
            one([rect(n & 7, 2, 3, 4, 5, 6, 15, f, fill(n, n & 255)), tail, rect(1, 1, 1, 1, 1, 1, 8, f, b"")])
    # the other two header fields are free (cbScanWidth, cbUncompressedSize)
    for sw, us in ((0, 0), (0xffff, 0xffff), (0x8000, 1), (0x100, 0xff00)):
        one([rect(1, 2, 3, 4, 5, 6, 16, 1, b"\x01\x02\x03", hdr=le16(0) + le16(3) + le16(sw) + le16(us)), tail])
    # every 16-bit field at its boundaries, all fields distinct (order / endianness / truncation)
    for vals in ((0xffff, 0xfffe, 0xfffd, 0xfffc, 0xfffb, 0xfffa, 0xfff9), (0x8000, 0x7fff, 0x0100, 0x00ff, 0x0001, 0x0000, 0x0180),
                 (0, 0, 0, 0, 0, 0, 0), (0x1234, 0x5678, 0x9abc, 0xdef0, 0x0fed, 0xcba9, 0x8765)):
        for f in (0, 1, 0x401):
            one([rect(*vals, f, b"\x01\x02"), tail])
    # update size field boundaries (le16: 255 / 256 / 257, 0xffff does not fit a fast-path PDU), bitmap and non-bitmap
    for size in (4, 254, 255, 256, 257, 511, 512, 4095, 4096):
        n = size - 4 - 18
        if n >= 0: one([rect(1, 2, 3, 4, 5, 6, 16, 0x401, fill(n, 3))])
        if n - 8 >= 0: one([rect(1, 2, 3, 4, 5, 6, 16, 1, fill(n - 8, 4))])
        add([(fp_frame(fp_unknown(7, fill(size, 5)) + fp_bitmap([tail[0]]) + fp_color(xor=fill(size, 6), andm=b"") + fp_bitmap([tail[0]])), [tail[1], tail[1]])])
    add([(fp_frame(fp_bitmap([])), [])])
    # the same kinds of PDU sequence with ALL frames already waiting in the transport (one read per frame): an empty PDU (header
    # only, both length forms) must not swallow what follows it
    def addq(pdus):
        steps = activation() + ["Q:" + ",".join(hx(f) for f, _ in pdus)]
        evs = [e for _, es in pdus for e in es]
        cases.append((case(steps), ("c10", (tuple(evs),))))
    bm = (fp_frame(fp_bitmap([tail[0]])), [tail[1]])
    for empty in (fp_frame(b"", long=False), fp_frame(b"", long=True), fp_frame(fp_bitmap([]))):
        addq([(empty, []), bm]); addq([bm, (empty, []), bm]); addq([(empty, []), (empty, []), bm, bm])
    addq([bm, bm, bm]); addq([(fp_frame(fp_ptr_null()), []), bm, (fp_frame(fp_sync()), []), bm])
    # fast-path length forms: empty PDU, last short length 0x7f, first long 0x80, long form of small PDUs, 0xff/0x100, 0x3fff/0x4000, 0x7fff
    add([(fp_frame(b"", long=False), []), (fp_frame(b"", long=True), []), (fp_frame(fp_bitmap([tail[0]])), [tail[1]])])
    for total, long in ((0x7e, False), (0x7f, False), (0x7f, True), (0x80, True), (0x81, True), (0xff, True), (0x100, True), (0x101, True),
                        (0x3fff, True), (0x4000, True), (0x4001, True), (0x7ffe, True), (0x7fff, True)):
        n = total - (3 if long else 2) - 3 - 4 - 18
        r = rect(7, 7, 8, 8, 2, 2, 16, 0x401, fill(n, total & 255))
        for action in (0, 0xc0):
            add([(fp_frame(fp_bitmap([r[0]]), action=action, long=long), [r[1]]), (fp_frame(fp_bitmap([tail[0]])), [tail[1]])])
    # every non-bitmap code, with a body that LOOKS like a bitmap update: no callbacks, the following update is intact
    looks = bitmap_update([tail[0], tail[0]])
    for code in (0, 2, 3, 4, 5, 6, 7, 8, 9, 10, 11, 12, 13, 14, 15):
        add([(fp_frame(fp_unknown(code, looks) + fp_bitmap([tail[0]]) + fp_unknown(code, b"") + fp_unknown(code, b"\x01")), [tail[1]])])
    # long loops: many rectangles in one update, many updates in one PDU
    many = [rect(i, i + 1, i + 2, i + 3, 1, 1, 16, (0, 1, 0x401)[i % 3], fill(i % 5, i)) for i in range(64)]
    one(many)
    add([(fp_frame(b"".join((fp_sync() if i % 2 else fp_bitmap([many[i][0]])) for i in range(64))), [many[i][1] for i in range(0, 64, 2)])])
    # several PDUs one after the other, both length forms, nothing carried over from one PDU to the next
    a_, b_, c_ = rect(1, 1, 2, 2, 1, 1, 16, 1, b"\x01"), rect(3, 3, 4, 4, 1, 1, 16, 0, b"\x02\x03"), rect(5, 5, 6, 6, 1, 1, 16, 0x401, b"")
    add([(fp_frame(fp_bitmap([a_[0]]), long=True), [a_[1]]), (fp_frame(b""), []), (fp_frame(fp_ptr_null()), []),
         (fp_frame(fp_bitmap([b_[0], c_[0]]), action=0x80), [b_[1], c_[1]]), (fp_frame(fp_bitmap([a_[0]]) + fp_bitmap([c_[0]]), long=True), [a_[1], c_[1]]),
         (fp_frame(fp_bitmap([])), []), (fp_frame(fp_bitmap([b_[0]])), [b_[1]])])
    # random
    for _ in range(400 if quick else 8000):
        pdus = []
        for _ in range(rng.randrange(1, 5)):
            us = [rand_update(rng) for _ in range(rng.choice([0, 1, 1, 2, 3, 5, 8]))]
            body = b"".join(u[0] for u in us)
            if len(body) + 3 > 0x7fff: continue
            long = (len(body) + 2 > 0x7f) or rng.random() < 0.3
            pdus.append((fp_frame(body, action=rng.choice([0, 0, 0x40, 0x80, 0xc0]), long=long), [e for u in us for e in u[1]]))
        if pdus: add(pdus)
    return cases

def classify(line, out):
    steps, _ = parse_out(out)
    return ",".join(sorted(set(s[0] for s in steps)))

def shape(line):
    return hash(line)

def nontrivial(line, out):
    steps, _ = parse_out(out)
    return any(s[2] for s in steps)

def oracle(line, out, expect):
    steps, _ = parse_out(out)
    for s in steps:
        if s[0] in ("panic", "spin", "crashed"): return "crashed: " + s[0]
    if expect is None: return None
    exp = expect[1]
    got = steps[5:]
    if len(got) != len(exp): return "run stopped early"
    for i, (g, e) in enumerate(zip(got, exp)):
        if g[0] != "ok": return "fast-path PDU %d: read returned %s" % (i, g[0])
        if tuple(g[3]) != tuple(e):
            return "fast-path PDU %d: callbacks %s, the server sent rectangles %s" % (i, g[3], list(e))
    return None
from ties import of as _tie_of; TIE_LAYOUTS, TIE_PINS, TIE_ENUMS = _tie_of("C10")   # static-tie lemmas (coq/Gen/Tie) this property depends on
