"""Shared by C06/C10/C11/C12: session case lines, a strict reference DECODER of what the client
emits in a session (from MS-RDPBCGR / T.125, independent of the implementation and of the Coq
model), and the reference activation automaton."""
import struct
from common import *
from rdp import *

GROUP = "session"
MODEL_FILES = ["coq/Msg.v", "coq/LayoutsGlobal.v", "coq/Global.v", "coq/Tpkt.v", "coq/Link.v"]
PROFILES = ["debug", "release"]
UID = 1004
SHARE = 0x000103ea

def case(steps, uid=UID, w=800, h=600, layout="us", name=b"rdp-rs"):
    return "session %d %d %d %s %s %s" % (uid, w, h, layout, hx(name), " ".join(steps))

def R(frame): return "R:" + hx(frame)

def parse_out(out):
    """-> list of (res, wire bytes | None, nevents, [event strings]) and the allocation measurement"""
    a = None
    if " #a=" in out:
        out, a = out.split(" #a="); a = int(a)
    steps = []
    for tok in out.split():
        parts = tok.split("|")
        if len(parts) != 3: steps.append((tok, None, 0, [])); continue
        res, w, ev = parts
        w = w[2:]
        wb = None if w.startswith("#") else (b"" if w == "-" else bytes.fromhex(w))
        ev = ev[3:]
        n = int(ev.split("[")[0]) if ev else 0
        evs = ["[" + x for x in ev.split("[")[1:]]
        steps.append((res, wb, n, evs))
    return steps, a

# ------------------------------------------------------------------ strict decoder of client output
class Bad(Exception): pass

def split_frames(b):
    """the wire must be a concatenation of complete TPKT frames"""
    out = []
    while b:
        if len(b) < 4 or b[0] != 3 or b[1] != 0: raise Bad("not a TPKT header")
        n = (b[2] << 8) | b[3]
        if n < 7 or n > len(b): raise Bad("TPKT length %d does not match" % n)
        out.append(b[4:n]); b = b[n:]
    return out

def dec_mcs_sdr(p, uid, chan):
    """X.224 data + MCS send-data-request; returns user data"""
    if p[:3] != b"\x02\xf0\x80": raise Bad("x224 data header")
    p = p[3:]
    if len(p) < 7 or p[0] != (25 << 2): raise Bad("not a send-data-request")
    ini, ch = struct.unpack(">HH", p[1:5])
    if ini + 1001 != uid: raise Bad("initiator %d != assigned user id %d" % (ini + 1001, uid))
    if ch != chan: raise Bad("channel %d != %d" % (ch, chan))
    if p[5] != 0x70: raise Bad("priority/segmentation byte")
    if p[6] & 0x80:
        n = ((p[6] & 0x7f) << 8) | p[7]; d = p[8:]
        if n <= 0x7f: raise Bad("non-minimal PER length")
    else:
        n = p[6]; d = p[7:]
    if n != len(d): raise Bad("PER length %d != %d" % (n, len(d)))
    return d

def dec_share_control(d, uid):
    if len(d) < 6: raise Bad("share control too short")
    tl, pt, src = struct.unpack("<HHH", d[:6])
    if tl != len(d): raise Bad("totalLength %d != %d" % (tl, len(d)))
    if src != uid: raise Bad("PDUSource %d != user id %d" % (src, uid))
    return pt, d[6:]

def dec_share_data(b, share):
    if len(b) < 12: raise Bad("share data header too short")
    sid, pad, stream, ulen, t2, ct, clen = struct.unpack("<IBBHBBH", b[:12])
    if share is not None and sid != share: raise Bad("shareId %#x != %#x" % (sid, share))
    if ulen != len(b) + 6: raise Bad("uncompressedLength %d != %d" % (ulen, len(b) + 6))   # counts from the share control header
    if ct != 0 or clen != 0: raise Bad("compression fields")
    if stream != 1: raise Bad("streamId")
    return t2, b[12:]

def dec_client_frame(fr, uid, share, chan=1003):
    """-> ('confirm', shareId) | ('sync', target) | ('control', action) | ('fontlist',) | ('input', [events])"""
    pt, body = dec_share_control(dec_mcs_sdr(fr, uid, chan), uid)
    if pt == 0x13:
        sid, orig, lsd, lcc = struct.unpack("<IHHH", body[:10])
        if orig != 0x03ea: raise Bad("originatorId")
        src = body[10:10 + lsd]; rest = body[10 + lsd:]
        if len(src) != lsd: raise Bad("sourceDescriptor")
        ncap, pad = struct.unpack("<HH", rest[:4]); caps = rest[4:]
        if lcc != len(caps) + 4: raise Bad("lengthCombinedCapabilities %d != %d" % (lcc, len(caps) + 4))
        n = 0; types = []
        while caps:
            if len(caps) < 4: raise Bad("capability header")
            t, l = struct.unpack("<HH", caps[:4])
            if l < 4 or l > len(caps): raise Bad("lengthCapability")
            types.append(t); caps = caps[l:]; n += 1
        if n != ncap: raise Bad("numberCapabilities %d != %d" % (ncap, n))
        return ("confirm", sid, src, tuple(types))
    if pt != 0x17: raise Bad("unexpected pduType %#x" % pt)
    t2, pl = dec_share_data(body, share)
    if t2 == 0x1f:
        mt, tu = struct.unpack("<HH", pl)
        if mt != 1: raise Bad("synchronize messageType")
        return ("sync", tu)
    if t2 == 0x14:
        a, g, c = struct.unpack("<HHI", pl)
        return ("control", a, g, c)
    if t2 == 0x27:
        if struct.unpack("<HHHH", pl) != (0, 0, 3, 0x32): raise Bad("font list body")
        return ("fontlist",)
    if t2 == 0x1c:
        n, pad = struct.unpack("<HH", pl[:4]); ev = pl[4:]
        if len(ev) != 12 * n: raise Bad("numEvents %d vs %d bytes" % (n, len(ev)))
        evs = []
        for i in range(n):
            tm, mt = struct.unpack("<IH", ev[12 * i:12 * i + 6])
            if tm != 0: raise Bad("eventTime")
            d = ev[12 * i + 6:12 * i + 12]
            if mt == 0x8001: evs.append(("mouse",) + struct.unpack("<HHH", d))
            elif mt == 0x0004:
                fl, code, pad = struct.unpack("<HHH", d)
                if pad != 0: raise Bad("keyboard pad")
                evs.append(("key", fl, code))
            else: raise Bad("input messageType %#x" % mt)
        return ("input", evs)
    raise Bad("unexpected pduType2 %#x" % t2)

def expected_input(step):
    """what MS-RDPBCGR 2.2.8.1.1.3 says must be sent for a submitted event"""
    f = step.split(":")
    k = f[0].lstrip("T") if f[0] not in ("TB",) else "B"
    if f[0] in ("P", "TP"):
        x, y, b, d = int(f[1]), int(f[2]), int(f[3]), f[4] == "1"
        fl = {1: 0x1000, 2: 0x2000, 3: 0x4000}.get(b, 0x0800) | (0x8000 if d else 0)
        return ("mouse", fl, x, y)
    if f[0] in ("K", "TK"):
        code, d = int(f[1]), f[2] == "1"
        return ("key", 0 if d else 0x8000, code)
    return None

# ------------------------------------------------------------------ reference activation automaton (property C12)
LETTERS = ["DA", "SYNC", "COOP", "GRANTED", "CTRLOTHER", "FONTMAP", "SEI", "UNK", "DEACT", "FPBMP", "FPOTHER"]

def letter_frame(l, sid=SHARE, rng=None):
    if l == "DA": return slow_frame(demand_active(share_id=sid))
    if l == "SYNC": return slow_frame(synchronize(share_id=sid))
    if l == "COOP": return slow_frame(control(4, share_id=sid))
    if l == "GRANTED": return slow_frame(control(2, UID, 1002, share_id=sid))
    if l == "CTRLOTHER": return slow_frame(control(3 if (rng and rng.random() < 0.5) else 1, share_id=sid))
    if l == "FONTMAP": return slow_frame(font_map(share_id=sid))
    if l == "SEI": return slow_frame(set_error_info(0x10c, share_id=sid))
    if l == "UNK": return slow_frame(unknown_data(share_id=sid))
    if l == "DEACT": return slow_frame(deactivate_all(share_id=sid))
    if l == "FPBMP": return fp_frame(fp_bitmap([bitmap_rect(0, 0, 1, 1, 2, 2, 16, 0, bytes(8)), bitmap_rect(2, 2, 3, 3, 2, 2, 32, 0x401, b"\x10\x00")]))
    if l == "FPOTHER": return fp_frame(fp_ptr_null() + fp_sync())
    raise ValueError(l)

class RefAutomaton:
    """waiting-for state per MS-RDPBCGR 1.3.1.1; 'DATA' = the window between font-map and deactivate-all"""
    ORDER = ["DA", "SYNC", "COOP", "GRANTED", "FONTMAP"]
    def __init__(self): self.i = 0; self.share = None
    def window(self): return self.i == 5
    def feed(self, l, sid=SHARE):
        """returns (expected client PDUs, expected number of bitmap events)"""
        if self.i == 5:
            if l == "DEACT": self.i = 0
            return [], (2 if l == "FPBMP" else 0)
        if l == self.ORDER[self.i]:
            self.i += 1
            if l == "DA":
                self.share = sid
                return [("confirm", sid), ("sync",), ("control", 4), ("control", 1), ("fontlist",)], 0
        return [], 0

ACCEPT_ERRORS_OUTSIDE = True
