"""C06: hostile server bytes during an active session never crash the client.
Every client state x every kind of server PDU x field faults / truncations / extensions / corruption,
plus all short byte strings at the PDU parser entries.  Outcome judged: no panic / abort / spin, and the
largest single allocation stays within the 16-bit frame bound."""
from session import *

RULE = ("for each of the 6 client states (reached by a scripted prefix) and each server PDU kind (demand-active with known / "
        "unknown / short capability sets, synchronize, control, font-map, error-info, unknown data PDU, deactivate-all, "
        "batched PDUs, fast-path bitmap with and without compression header, colour pointer, other fast-path updates): "
        "every byte position set to a boundary set (quick) or to all 256 values (thorough); every byte offset as a 16-bit "
        "LE field set to {0..20, 0x7f, 0x80, 0xff, 0x100, 0x7fff, 0x8000, 0xfffe, 0xffff}; every truncation point and "
        "several extensions with the outer headers re-computed; faults in the TPKT / X.224 / MCS headers; pairs of faults "
        "(thorough); all byte strings of length <= 2 (quick) / <= 3 sampled (thorough) as share-control and as fast-path "
        "payload in every state; seeded random corruption.  After the hostile frame an input attempt and a valid follow-up "
        "frame are played.  Non-trivial = the hostile frame got past the MCS layer (distinct outcome/err class per "
        "(state, PDU kind, fault kind)).")
TRUSTED_BASE = ["Coq 8.16.1 kernel (vm_compute for the per-layout `safe` obligations)", "hand-written models coq/Msg.v, coq/LayoutsGlobal.v, coq/Global.v tied to /repo by this correspondence run",
                "extraction + ocaml/session/driver.ml", "Rust harness/src/session.rs + hooks + counting allocator (harness/src/alloc.rs)"]
ASSUMPTIONS = ["whole frames are delivered (C13 covers fragmentation)", "memory 'out of proportion' is made precise as: no single allocation request above 2*65536+4096 bytes (every length the code sizes from the wire is a 16-bit field; Vec growth doubles)"]
ALLOC_LIMIT = 2 * 65536 + 4096

PREFIX = ["DA", "SYNC", "COOP", "GRANTED", "FONTMAP"]
VB = [0, 1, 2, 3, 4, 5, 6, 7, 8, 0x10, 0x11, 0x12, 0x13, 0x14, 0x16, 0x17, 0x1f, 0x28, 0x2f, 0x7f, 0x80, 0x81, 0xfe, 0xff]
V16 = list(range(0, 21)) + [0x7f, 0x80, 0xff, 0x100, 0x7fff, 0x8000, 0xfffe, 0xffff]

def user_payloads():
    """(name, share-level bytes, natural state index) for slow path; fast-path bodies separately"""
    comp = bitmap_rect(1, 2, 3, 4, 2, 2, 16, 1, b"\xfd\xfd\xfd\xfd")
    raw = bitmap_rect(0, 0, 1, 1, 2, 2, 16, 0, bytes(8))
    nohdr = bitmap_rect(5, 6, 7, 8, 2, 2, 32, 0x401, b"\x10\x00")
    slow = [
        ("da", demand_active(caps=(GENERAL_CAP, BITMAP_CAP, POINTER_CAP, INPUT_CAP, VC_CAP, SHARE_CAP, FONT_CAP, UNKNOWN_CAP)), 0),
        ("da_small", demand_active(caps=(POINTER_CAP, VC_CAP_SHORT)), 0),
        ("sync", synchronize(), 1), ("coop", control(4), 2), ("granted", control(2, 1004, 1002), 3), ("fontmap", font_map(), 4),
        ("sei", set_error_info(5), 5), ("unk", unknown_data(), 5), ("deact", deactivate_all(), 5),
        ("batch", set_error_info(1) + unknown_data() + deactivate_all() + font_map(), 5),
    ]
    fast = [
        ("fp_bmp", fp_bitmap([raw, comp, nohdr]), 5), ("fp_color", fp_color(w=2, h=2, xor=bytes(12), andm=bytes(4)), 5),
        ("fp_mix", fp_ptr_null() + fp_sync() + fp_bitmap([raw]) + fp_unknown() + fp_ptr_pos(), 5),
    ]
    return slow, fast

def prefix_steps(k):
    return [R(letter_frame(l)) for l in PREFIX[:k]]

def follow_up(k):
    """a valid frame the state k expects (after the hostile one) + an input attempt"""
    nxt = (PREFIX + ["FPBMP"])[k]
    return ["TP:1:2:1:1", R(letter_frame(nxt)), "P:3:4:0:0"]

def gen_cases(tier, rng):
    quick = tier == "quick"
    cases = []
    slow, fast = user_payloads()
    def add(k, frame, tag):
        cases.append((case(prefix_steps(k) + [R(frame)] + follow_up(k)), ("c06", k, tag)))
    for (name, body, nat) in slow + fast:
        is_fast = name.startswith("fp_")
        wrap = (lambda b: fp_frame(b)) if is_fast else (lambda b: slow_frame(b))
        for k in range(6):
            light = quick and k not in (nat, 5, 0)      # quick: the full fault set in the natural / first / data state
            add(k, wrap(body), name + ":valid")
            if light:
                for i in range(0, len(body), 2):
                    for v in (0, 0xff, body[i] ^ 1, 0x16, 0x11):
                        if v != body[i]: add(k, wrap(body[:i] + bytes([v]) + body[i + 1:]), name + ":byte")
                for i in range(0, len(body) - 1):
                    for v in (0, 3, 5, 17, 0xffff):
                        add(k, wrap(body[:i] + le16(v) + body[i + 2:]), name + ":u16")
                for cut in range(0, len(body), 3): add(k, wrap(body[:cut]), name + ":trunc")
                continue
            # single byte faults
            vals = VB if quick else range(256)
            for i in range(len(body)):
                vs = vals if (not quick or i < 40 or i % 3 == 0) else [0, 0xff, body[i] ^ 1]
                for v in vs:
                    if v == body[i]: continue
                    add(k, wrap(body[:i] + bytes([v]) + body[i + 1:]), name + ":byte")
            # 16-bit field faults at every offset
            for i in range(len(body) - 1):
                if quick and i >= 60 and i % 4: continue
                for v in V16:
                    add(k, wrap(body[:i] + le16(v) + body[i + 2:]), name + ":u16")
            # truncations (outer headers recomputed) and extensions
            for cut in range(len(body)):
                if quick and cut > 48 and cut % 5: continue
                add(k, wrap(body[:cut]), name + ":trunc")
            for ext in (b"\x00", b"\xff" * 7, fill(300, 3), body):
                add(k, wrap(body + ext), name + ":ext")
            # random corruption
            for _ in range(20 if quick else 400):
                b = bytearray(body)
                for _ in range(rng.randrange(1, 5)):
                    b[rng.randrange(len(b))] = rng.randrange(256)
                add(k, wrap(bytes(b)), name + ":rand")
            if not quick:
                for _ in range(600):
                    b = bytearray(body)
                    i, j = rng.randrange(len(b) - 1), rng.randrange(len(b) - 1)
                    b[i:i + 2] = le16(rng.choice(V16)); b[j:j + 2] = le16(rng.choice(V16))
                    add(k, wrap(bytes(b)), name + ":pair")
    # faults in the outer headers (x224 / MCS) of a valid font-map frame, in every state
    inner = x224_data(mcs_sdi(font_map()))
    for k in range(6):
        for i in range(min(len(inner), 12)):
            for v in (VB if quick else range(256)):
                if v != inner[i]: add(k, tpkt(inner[:i] + bytes([v]) + inner[i + 1:]), "hdr:byte")
        for cut in range(0, 12):
            add(k, tpkt(inner[:cut]), "hdr:trunc")
        add(k, tpkt(x224_data(bytes([8 << 2, 0x80]))), "hdr:disconnect")
    # a long run of frames the session layer refuses or ignores, all waiting in the transport for ONE read call
    runs = [("userchan", slow_frame(font_map(), chan=UID)), ("unkchan", slow_frame(font_map(), chan=1007)),
            ("ignored", slow_frame(unknown_data())), ("fp_unknown", fp_frame(fp_unknown())), ("empty", tpkt(x224_data(b"")))]
    for k in range(6):
        for (nm, fr) in runs:
            cases.append((case(prefix_steps(k) + ["M:%d:%s" % (400000 if k in (0, 5) else 3000, hx(fr))] + follow_up(k)), ("c06", k, "run:" + nm)))
    # all short byte strings at the two parser entries, in every state
    shorts = [b""] + [bytes([a]) for a in range(256)]
    if quick:
        shorts += [bytes([a, b]) for a in VB for b in VB]
    else:
        shorts += [bytes([a, b]) for a in range(256) for b in range(256)]
        shorts += [bytes(rng.randrange(256) for _ in range(3)) for _ in range(20000)]
    for k in range(6):
        for sb in shorts:
            add(k, slow_frame(sb), "short:slow")
            if k == 5 or len(sb) < 2: add(k, fp_frame(sb), "short:fast")
    # every class of fast-path HEADER byte (action bits, numberEvents bits, the two security-flag bits: secure checksum 0x40,
    # encrypted 0x80) in front of empty / short / valid bodies, in both length forms, in every state
    fp_valid = [b for (n_, b, _) in fast]
    for k in range(6):
        for action in (0x00, 0x01, 0x02, 0x04, 0x3c, 0x40, 0x41, 0x7c, 0x80, 0x81, 0xbc, 0xc0, 0xc1, 0xfc, 0xff):
            bodies = [bytes(n) for n in range(0, 10)] + [bytes([5, 0, 0]), bytes([1, 1, 0, 0])] + (fp_valid if k == 5 or not quick else fp_valid[:1])
            for body in bodies:
                add(k, fp_frame(body, action=action), "fphdr")
                if len(body) < 6: add(k, fp_frame(body, action=action, long=True), "fphdr")
    return cases

def classify(line, out):
    steps, _ = parse_out(out)
    return ",".join(sorted(set(s[0] for s in steps)))

def shape(line):
    return hash(line) % 100000

def nontrivial(line, out):
    return True

def oracle(line, out, expect):
    steps, a = parse_out(out)
    for i, s in enumerate(steps):
        if s[0] in ("panic", "spin", "crashed"): return "step %d: %s" % (i, s[0])
    if out.startswith("crashed") or not steps: return "process died: " + out[:80]
    if a is not None and a > ALLOC_LIMIT:
        return "largest single allocation %d bytes exceeds %d for frames of at most 65535 bytes" % (a, ALLOC_LIMIT)
    return None
from ties import of as _tie_of; TIE_LAYOUTS, TIE_PINS, TIE_ENUMS = _tie_of("C06")   # static-tie lemmas (coq/Gen/Tie) this property depends on
