"""C15: NTLMv2 AUTHENTICATE tokens are accepted by an independent MS-NLMP server -- generator and oracle.
Case lines (see harness/src/ntlmauth.rs); strings are dot-separated hex code points, "-" = empty:
  negotiate
  auth <pw|hash> <dom> <user> <password | NT hash hex> <upper(user)> <nonce hex> <session key hex> <CHALLENGE bytes>
       -> ok <AUTHENTICATE token> | err:<Kind> | panic      (harness appends ` # upper=<Rust's to_uppercase(user)>`)
  unicode <s> | ntowfv2 <pw> <user> <dom> <upper> | lmowfv2 .. | ntowfv2h <hash> <user> <dom> <upper>
  cresp <keynt> <keylm> <srvchal> <clichal> <time> <srvname> | authmsg <lm> <nt> <dom> <user> <ws> <key> <flags>
The oracle is the independent python MS-NLMP server (and reference client) of gen/nlmp.py."""
from common import *
import nlmp, struct

GROUP = "ntlmauth"
MODEL_FILES = ["coq/Ntlm.v", "coq/LayoutsNtlmAuth.v", "coq/Utf.v", "coq/Msg.v", "coq/Rc4.v", "coq/Md5.v", "coq/Md4.v", "coq/Hmac.v"]
PROFILES = ["debug", "release"]
RULE = ("domain / user / password drawn from the classes {empty, ASCII, Latin-1, BMP CJK, non-BMP, mixed case, special-casing "
        "letters, long (300), over-long (> 65535 encoded bytes)}, password mode and NT-hash mode for the same account; random "
        "8-byte server challenges, client nonces and session keys; target-info blocks with any subset, order and repetition of the "
        "AV ids 1..10 around exactly one 8-byte timestamp, value lengths {0,1,2,20,300}, trailing bytes after EOL, sizes at the "
        "16-bit boundary of the NT response (65535 accepted / 65536 refused); flags with and without VERSION and UNICODE; target "
        "name / padding before and after the target info.  Every token must be accepted by the python MS-NLMP server (NTProofStr, "
        "LMv2 proof, every (len,maxlen,offset) inside the payload, session-key unwrap = the preset key, MIC) and equal the python "
        "reference client's token byte for byte; implementation vs extracted model compared byte for byte.  distinct = distinct "
        "(operation, string-class / size signature, outcome class).")
TRUSTED_BASE = ["Coq 8.16.1 kernel (vm_compute for the concrete examples)",
                "hand-written model coq/Ntlm.v + LayoutsNtlmAuth.v + Utf.v over Msg.v and the crypto models, tied to /repo by this correspondence run",
                "extraction (ExtrOcamlBasic only) + ocaml/ntlmauth/driver.ml",
                "Rust harness/src/ntlmauth.rs and the cfg(rdp_rs_verif) hooks ntlm::verif::*, model::rnd::verif (preset randomness)",
                "python oracle gen/nlmp.py (server_verify, client_token; hashlib MD5, stdlib hmac, hand-written RC4/MD4)",
                "String::to_uppercase: an oracle (the case line carries python's str.upper(), compared with Rust's on every case)"]
ASSUMPTIONS = ["theorems hold for ANY md4/hmac with 16-byte digests and ANY uppercase mapping shared by client and server; Rust's and Windows' mappings differ on some letters (observation, not decided)",
               "the CHALLENGE carries an MsvAvTimestamp the client's AV parser finds, KEY_EXCH is negotiated, names are ASCII when UNICODE is not negotiated (the client then sends UTF-8 where MS-NLMP wants the OEM code page)",
               "spec of the server = coq/RefNlmp.v (MS-NLMP 2.2.1.3, 3.3.2); the AUTHENTICATE layout without Version when the VERSION flag is clear is accepted by the spec server (MIC right before the payload)"]

NEG = bytes.fromhex("4e544c4d53535000010000003582086000000000000000000000000000000000")

def cps(s): return ".".join("%x" % ord(c) for c in s) or "-"

CLASSES = {
    "empty": lambda rng: "",
    "ascii": lambda rng: "".join(rng.choice("abcXYZ019_-. $") for _ in range(rng.randrange(1, 12))),
    "latin1": lambda rng: "".join(rng.choice("éàüñßÆøÿ¿") for _ in range(rng.randrange(1, 8))),
    "cjk": lambda rng: "".join(rng.choice("日本語中文한국어漢字") for _ in range(rng.randrange(1, 8))),
    "nonbmp": lambda rng: "".join(rng.choice("\U0001F600\U00010437\U0001D11E\U00020BB7\U0010FFFF") for _ in range(rng.randrange(1, 5))),
    "mixed": lambda rng: "".join(rng.choice("aBcDéÉßσΣж\U00010437Q日") for _ in range(rng.randrange(2, 12))),
    "special": lambda rng: "".join(rng.choice("ßŉǆǅﬁΐǰıİſ") for _ in range(rng.randrange(1, 6))),
    "long": lambda rng: "".join(rng.choice("abcDEFé日\U0001F600") for _ in range(300)),
}

def rbytes(rng, n): return bytes(rng.randrange(256) for _ in range(n))

def target_info(rng, size=None):
    ids = [rng.choice([1, 2, 3, 4, 5, 6, 8, 9, 10]) for _ in range(rng.randrange(0, 7))]
    pairs = [(i, rbytes(rng, rng.choice([0, 1, 2, 8, 20, 300] if size is None else [0, 2, 20]))) for i in ids]
    pairs.insert(rng.randrange(len(pairs) + 1), (7, rbytes(rng, 8)))
    ti = nlmp.av_pairs(pairs)
    if size is not None:
        # pad with one big AV pair (before the EOL) up to exactly `size` bytes
        need = size - len(ti) - 4
        assert need >= 0
        ti = nlmp.av_pairs(pairs + [(9, rbytes(rng, need))])
        assert len(ti) == size
    elif rng.random() < 0.2:
        ti += rbytes(rng, rng.randrange(1, 9))          # bytes after MsvAvEOL, still inside TargetInfoLen
    return ti

def auth_case(rng, user, dom, pw, flags, mode, ti=None, label="", pre=None, post=None):
    ti = target_info(rng) if ti is None else ti
    sc, nonce, key = rbytes(rng, 8), rbytes(rng, 8), rbytes(rng, 16)
    pre = rbytes(rng, rng.choice([0, 0, 6, 31])) if pre is None else pre
    post = rbytes(rng, rng.choice([0, 0, 5])) if post is None else post
    chal = nlmp.challenge_message(flags, sc, ti, target_name=pre, version=rbytes(rng, 8), post=post)
    h = nlmp.nt_hash(pw)
    secret = cps(pw) if mode == "pw" else h.hex()
    line = "auth %s %s %s %s %s %s %s %s" % (mode, cps(dom), cps(user), secret, cps(user.upper()), nonce.hex(), key.hex(), chal.hex())
    return line, ("auth", user, dom, h.hex(), flags, label)

def auth2_case(rng, user, dom, pw, flags1, flags2, mode):
    l1, _ = auth_case(rng, user, dom, pw, flags1, mode)
    l2, _ = auth_case(rng, user, dom, pw, flags2, mode)
    t1, t2 = l1.split(), l2.split()
    return "auth2 " + " ".join(t1[1:]) + " " + " ".join(t2[6:]), ("auth2",)

def gen_cases(tier, rng):
    quick = tier == "quick"
    cases = [("negotiate", ("exact", "ok " + NEG.hex()))]
    # TWO handshakes on one Ntlm object: nothing of the first (character set, keys, flags) may survive into the second
    F0 = nlmp.CLIENT_FLAGS
    for (f1, f2) in [(F0, F0 & ~nlmp.NEG_UNICODE), (F0 & ~nlmp.NEG_UNICODE, F0), (F0 | nlmp.NEG_VERSION, F0), (F0, F0 | nlmp.NEG_VERSION), (F0, F0)]:
        for mode in ("pw", "hash"):
            cases.append(auth2_case(rng, "alice", "Dom", "pw", f1, f2, mode))
    F = nlmp.CLIENT_FLAGS
    NEG_OEM = 0x00000002
    # with and without VERSION and UNICODE, and each of them with the OEM bit as well (MS-NLMP 2.2.2.5: UNICODE wins when both are set)
    FLAGS = [F, F | nlmp.NEG_VERSION, F & ~nlmp.NEG_UNICODE, (F | nlmp.NEG_VERSION) & ~nlmp.NEG_UNICODE,
             F | NEG_OEM, F | nlmp.NEG_VERSION | NEG_OEM, (F & ~nlmp.NEG_UNICODE) | NEG_OEM]
    names = list(CLASSES)
    # ---- primitives
    for cl in names:
        for _ in range(2 if quick else 10):
            s = CLASSES[cl](rng); u = CLASSES[rng.choice(names)](rng); d = CLASSES[rng.choice(names)](rng)
            cases.append(("unicode " + cps(s), ("exact", "ok " + hx(nlmp.utf16(s)))))
            k = nlmp.ntowfv2(nlmp.nt_hash(s), u.upper(), d)
            cases.append(("ntowfv2 %s %s %s %s" % (cps(s), cps(u), cps(d), cps(u.upper())), ("upper", u, "ok " + k.hex())))
            cases.append(("lmowfv2 %s %s %s %s" % (cps(s), cps(u), cps(d), cps(u.upper())), ("upper", u, "ok " + k.hex())))
            cases.append(("ntowfv2h %s %s %s %s" % (nlmp.nt_hash(s).hex(), cps(u), cps(d), cps(u.upper())), ("upper", u, "ok " + k.hex())))
    cases.append(("ntowfv2 66.6f.6f 75.73.65.72 64.6f.6d.61.69.6e 55.53.45.52", ("exact", "ok 6e53b900978c871f91de06449d8b8b81")))   # repo test_ntowfv2
    cases.append(("cresp 61 62 63 64 65 66", ("exact", "ok b423840f6e83c15a454f4c927af2c33e010100000000000065640000000066 56baff2d98becda56de61789e1edcaae64 403b33e524343cc324a04d777534a4d0")))  # repo test_compute_response_v2
    for _ in range(10 if quick else 100):
        a = [rbytes(rng, rng.choice([0, 1, 16, 70])) for _ in range(2)] + [rbytes(rng, rng.choice([0, 8])) for _ in range(3)] + [rbytes(rng, rng.choice([0, 5, 200]))]
        temp = b"\x01\x01" + b"\x00" * 6 + a[4] + a[3] + b"\x00" * 4 + a[5]
        proof = nlmp.hmac_md5(a[0], a[2] + temp)
        exp = "ok %s %s %s" % (hx(proof + temp), hx(nlmp.hmac_md5(a[1], a[2] + a[3]) + a[3]), hx(nlmp.hmac_md5(a[0], proof)))
        cases.append(("cresp " + " ".join(hx(x) for x in a), ("exact", exp)))
    for _ in range(12 if quick else 100):
        f = [rbytes(rng, rng.choice([0, 1, 3, 24, 200])) for _ in range(6)]
        flags = rng.choice(FLAGS + [0, 0x02000000, 0xffffffff])
        off = 88 if flags & nlmp.NEG_VERSION else 80
        hdr = b"NTLMSSP\x00" + struct.pack("<I", 3)
        for x in f:
            hdr += struct.pack("<HHI", len(x), len(x), off); off += len(x)
        hdr += struct.pack("<I", flags) + (bytes([6, 0]) + struct.pack("<H", 6002) + bytes([0, 0, 0, 15]) if flags & nlmp.NEG_VERSION else b"")
        cases.append(("authmsg %s %d" % (" ".join(hx(x) for x in f), flags), ("exact", "ok " + (hdr + b"\x00" * 16 + b"".join(f)).hex())))
    # ---- handshakes: every class for user / domain / password, both modes, all four flag sets
    for cl in names:
        for flags in FLAGS:
            for rep in range(1 if quick else 6):
                user = CLASSES[cl](rng); dom = CLASSES[rng.choice(names)](rng); pw = CLASSES[rng.choice(names)](rng)
                for mode in ("pw", "hash"):
                    cases.append(auth_case(rng, user, dom, pw, flags, mode, label=cl))
    for _ in range(40 if quick else 800):
        user, dom, pw = (CLASSES[rng.choice(names)](rng) for _ in range(3))
        cases.append(auth_case(rng, user, dom, pw, rng.choice(FLAGS), rng.choice(["pw", "hash"]), label="rand"))
    # target info: empty-but-timestamp, every single id next to the timestamp in both orders
    for aid in range(1, 11):
        if aid == 7: continue
        for order in (0, 1):
            pairs = [(aid, rbytes(rng, 6)), (7, rbytes(rng, 8))]
            if order: pairs.reverse()
            cases.append(auth_case(rng, "User", "Dom", "pw", rng.choice(FLAGS), "pw", ti=nlmp.av_pairs(pairs), label="av%d" % aid))
    cases.append(auth_case(rng, "User", "Dom", "pw", F, "pw", ti=nlmp.av_pairs([(7, rbytes(rng, 8))]), label="tsonly", pre=b"", post=b""))
    # ---- 16-bit boundaries: NT response of exactly 65535 bytes is sent, 65536 is refused; names likewise
    for flags in ([F, F | nlmp.NEG_VERSION] if quick else FLAGS):
        for size, lab in ((65535 - 44, "nt65535"), (65536 - 44, "nt65536")) + (() if quick else ((65535 - 44 - 1, "nt65534"), (65535, "ti65535"))):
            cases.append(auth_case(rng, "u", "d", "p", flags, "pw", ti=target_info(rng, size), label=lab, pre=b"", post=b""))
    for (n, lab) in ((32767, "name65534"), (32768, "name65536")):
        cases.append(auth_case(rng, "a" * n, "d", "p", F, "pw", label="user" + lab))
        cases.append(auth_case(rng, "u", "D" * n, "p", F, "hash", label="dom" + lab))
    cases.append(auth_case(rng, "a" * 65535, "d", "p", F & ~nlmp.NEG_UNICODE, "pw", label="username65535"))
    cases.append(auth_case(rng, "a" * 65536, "d", "p", F & ~nlmp.NEG_UNICODE, "pw", label="username65536o"))
    return cases

def classify(line, out):
    t = line.split()
    return t[0] + (":" + t[1] if t[0] == "auth" else "") + ":" + out.split()[0]

def _cls(s):
    n = 0 if s == "-" else s.count(".") + 1
    if n == 0: return "e"
    cpsl = [int(x, 16) for x in s.split(".")]
    k = "n" if max(cpsl) > 0xffff else "b" if max(cpsl) > 0xff else "l" if max(cpsl) > 0x7f else "a"
    return k + ("L" if n > 1000 else "l" if n > 100 else "")

def shape(line):
    t = line.split()
    if t[0] == "auth":
        chal = bytes.fromhex(t[8])
        flags = struct.unpack_from("<I", chal, 20)[0]
        til = struct.unpack_from("<H", chal, 40)[0]
        return ("auth", t[1], _cls(t[2]), _cls(t[3]), flags & 0x02000001, min(til // 16, 12) if til < 60000 else til)
    return (t[0],) + tuple(min(len(x), 40) // 4 for x in t[1:])

def nontrivial(line, out):
    return out.startswith("ok ") or out.startswith("err:InvalidSize")

def oracle(line, out_full, expect):
    out = out_full.split(" #")[0]
    extra = out_full.split(" #")[1].strip() if " #" in out_full else ""
    if expect is not None and expect[0] == "exact":
        return None if out == expect[1] else "expected `%s` (python reference), implementation returned `%s`" % (expect[1][:160], out[:160])
    if expect is not None and expect[0] == "upper":
        return None if out == expect[2] else "expected `%s` (python NTOWFv2 with python's upper()), implementation returned `%s`" % (expect[2], out[:100])
    if "panic" in out.split() or "crashed" in out or "spin" in out.split():
        return "the handshake crashed: " + out[:200]
    t = line.split()
    if t[0] == "auth2":
        # each handshake is judged as if it were alone (same object, two CHALLENGEs)
        outs = out.split(" / ")
        if len(outs) != 2: return "two handshakes expected: " + out[:120]
        for k in (0, 1):
            sub = "auth " + " ".join(t[1:6]) + " " + " ".join(t[6 + 3 * k:9 + 3 * k])
            v = oracle(sub, outs[k] + (" #" + extra if extra else ""), None)
            if v: return "handshake %d on the same Ntlm object: %s" % (k + 1, v)
        return None
    if t[0] != "auth": return None
    # everything the judgement needs is in the case line itself (corpus lines carry no expectation)
    uncps = lambda x: "" if x == "-" else "".join(chr(int(c, 16)) for c in x.split("."))
    dom, user = uncps(t[2]), uncps(t[3])
    h = nlmp.nt_hash(uncps(t[4])) if t[1] == "pw" else bytes.fromhex(t[4])
    nonce, key, chal = bytes.fromhex(t[6]), bytes.fromhex(t[7]), bytes.fromhex(t[8])
    flags = struct.unpack_from("<I", chal, 20)[0]
    if extra.startswith("upper=") and extra[6:] != cps(user.upper()):
        return "uppercase oracle mismatch (machinery): Rust to_uppercase gives %s, python upper() gives %s" % (extra[6:], cps(user.upper()))
    unicode_mode = bool(flags & nlmp.NEG_UNICODE)
    enc = (lambda x: x.encode("utf-16-le")) if unicode_mode else (lambda x: x.encode("utf-8"))
    ti_len = struct.unpack_from("<H", chal, 40)[0]
    oversize = 44 + ti_len > 0xffff or len(enc(user)) > 0xffff or len(enc(dom)) > 0xffff
    if oversize:
        return None if out == "err:InvalidSize" else "a field longer than 65535 bytes cannot be addressed: expected err:InvalidSize, got " + out[:100]
    if not out.startswith("ok "):
        return "no AUTHENTICATE token for a conforming CHALLENGE: " + out[:200]
    token = bytes.fromhex(out.split()[1])
    try:
        # OEM mode with non-ASCII names: MS-NLMP wants the OEM code page, the client sends UTF-8 (observation);
        # the rest of the token is still verified, reading the names as UTF-8
        exported, cc = nlmp.server_verify(user, dom, h, NEG, chal, token, oem_codec="utf-8")
    except nlmp.Reject as e:
        return "token rejected by the independent MS-NLMP server: %s" % e
    if exported != key: return "the session key the server unwraps is not the client's exported session key"
    if cc != nonce: return "client challenge in the token is not the client's nonce"
    ref = nlmp.client_token(user, dom, h, NEG, chal, nonce, key)
    if ref != token: return "token differs from the python reference client's token (first difference at byte %d)" % next((i for i in range(min(len(ref), len(token))) if ref[i] != token[i]), min(len(ref), len(token)))
    return None
from ties import of as _tie_of; TIE_LAYOUTS, TIE_PINS, TIE_ENUMS = _tie_of("C15")   # static-tie lemmas (coq/Gen/Tie) this property depends on
