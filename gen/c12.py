"""C12: activation state machine -- one finalization per demand-active, input gated.
Case: a history over the 11-letter alphabet of server messages with an input attempt after every step."""
import itertools, os, subprocess
from session import *

RULE = ("histories over {demand-active, synchronize, control-cooperate, control-granted, control-other, font-map, "
        "set-error-info, unknown data PDU, deactivate-all, fast-path bitmap, fast-path other}: quick = every history of "
        "length <= 3 plus 2000 random ones of length <= 12; thorough = every history of length <= 5 plus 20000 random of "
        "length <= 16; an input attempt (pointer/key, strict and lenient write, rotating) after every step and before the "
        "first.  Each outcome is judged by an independent reference automaton and a strict decoder of the emitted PDUs.  "
        "Plus (both tiers) histories whose letters carry RANDOM parameters (share ids, capability-set lists with known / "
        "unknown / truncated / empty sets, control actions, pduType2 values and bodies, fast-path codes, rectangles, server "
        "identifiers): their frames are produced by the EXTRACTED Coq reference encoder RefSession.enc_smsg (driver op "
        "`refenc`), compared byte for byte with the python reference encoders of gen/rdp.py, and fed to the implementation.  "
        "Non-trivial = the history contains at least one demand-active; distinct = distinct histories.")
TRUSTED_BASE = ["Coq 8.16.1 kernel", "hand-written models coq/Msg.v (message interpreter), coq/LayoutsGlobal.v (PDU layouts), coq/Global.v (state machine) tied to /repo by this correspondence run",
                "extraction (ExtrOcamlBasic only) + ocaml/session/driver.ml", "Rust harness/src/session.rs; hooks x224::verif_new, mcs::verif_connected, RdpClient::verif_new",
                "gen/rdp.py reference encoders and gen/session.py reference automaton / strict decoder (the oracle)",
                "coq/RefSession.v reference encoder / automaton (spec of the history theorems), tied to gen/rdp.py byte for byte on generated letters at every run (op refenc) and by the golden frames of coq/C12_ref_examples.v"]
ASSUMPTIONS = ["the transport accepts every write (C14 covers short writes) and delivers whole frames (C13 covers fragmentation)",
               "the server PDUs of the alphabet are the well-formed encodings produced by gen/rdp.py"]

INPUTS = ["P:10:20:1:1", "TK:30:1", "K:30:0", "TP:65535:0:0:0", "P:1:2:2:0", "TK:57:0", "TP:3:4:3:1", "K:1:1"]

def history_case(letters, rng=None, k0=0):
    steps = [INPUTS[k0 % len(INPUTS)]]
    sid = SHARE
    for i, l in enumerate(letters):
        if l == "DA": sid = (sid + 0x10001) & 0xffffffff
        steps.append(R(letter_frame(l, sid, rng)))
        steps.append(INPUTS[(k0 + i + 1) % len(INPUTS)])
    return case(steps), ("hist", tuple(letters), k0)


# ------------------------------------------------------------------ letters with random parameters, encoded by the Coq reference encoder
ROOT = os.path.dirname(os.path.dirname(os.path.abspath(__file__)))
REF_DRIVER = os.path.join(ROOT, "ocaml", "session", "driver")

def _split_cap(c):
    t, l = struct.unpack("<HH", c[:4]); return (t, c[4:])
CAP_POOL = [_split_cap(c) for c in (GENERAL_CAP, BITMAP_CAP, POINTER_CAP, INPUT_CAP, VC_CAP, VC_CAP_SHORT, SHARE_CAP, FONT_CAP,
                                    UNKNOWN_CAP, BAD_GENERAL_CAP)]
T2_OTHER = [0x02, 0x1b, 0x1c, 0x21, 0x22, 0x23, 0x24, 0x25, 0x26, 0x27, 0x29, 0x2b, 0x2c, 0x2d, 0x2e, 0x30, 0x31, 0x32, 0x36,
            0x37, 0x38, 0x00, 0x01, 0x13, 0x15, 0x1e, 0x20, 0x2a, 0x39, 0x7f, 0x80, 0xff]     # anything but 0x14 0x1f 0x28 0x2f
CTRL_OTHER = [0, 1, 3, 5, 6, 0x0104, 0x0204, 0x8004, 0xff04, 0x0400, 0x0302, 0x0102, 0x8002, 0x0200, 0xffff]
FP_OTHER = [0, 2, 3, 4, 5, 6, 7, 8, 9, 10, 11, 12, 13, 14, 15]

def rand_ids(rng, fixed_source=False):
    return {"ini": rng.choice([1002, 1004, 1001, 65535, rng.randrange(1001, 65536)]), "chan": 1003,
            "src": 1002 if (fixed_source or rng.random() < 0.5) else rng.randrange(65536),
            "share": rng.choice([SHARE, 0, 0xffffffff, rng.randrange(1 << 32)]), "stream": rng.choice([1, 1, 2, 4, 0, 255]),
            "descr": bytes(rng.randrange(256) for _ in range(rng.choice([0, 1, 4, 4, 9]))),
            "target": rng.choice([UID, 1002, 0, 0xffff, rng.randrange(65536)]),
            "grant": rng.choice([0, UID, rng.randrange(65536)]), "control": rng.choice([0, 1002, rng.randrange(1 << 32)]),
            "sec": rng.randrange(4), "long": rng.random() < 0.3}

def rand_rect(rng):
    flags = rng.choice([0, 0, 1, 0x401, 0x400, 0x20])
    data = bytes(rng.randrange(256) for _ in range(rng.choice([0, 1, 2, 8, 17])))
    return [rng.randrange(65536) for _ in range(4)] + [rng.randrange(1, 64), rng.randrange(1, 64), rng.choice([8, 15, 16, 24, 32])] + \
           [flags, rng.randrange(65536), rng.randrange(65536), data]

def rand_letter(rng, name):
    """-> (letter token for `refenc`, share id | None, number of rectangles)"""
    if name == "DA":
        sid = rng.choice([SHARE, 0, 0xffffffff, rng.randrange(1 << 32)])
        caps = []
        for _ in range(rng.choice([0, 1, 3, 3, 5, 8])):
            t, b = rng.choice(CAP_POOL)
            r = rng.random()
            if r < 0.15: b = b[:rng.randrange(len(b) + 1)]                      # truncated body
            elif r < 0.25: t = rng.choice([0, 6, 11, 31, 0x1234, 0xffff])        # a type outside the client's enum
            elif r < 0.35: b = bytes(rng.randrange(256) for _ in range(rng.randrange(12)))
            caps.append((t, b))
        return "DA:%d:%s" % (sid, ",".join("%d.%s" % (t, b.hex()) for t, b in caps) or "-"), sid, 0, caps
    if name == "CTRLOTHER": a = rng.choice(CTRL_OTHER); return "CTRL:%d" % a, None, 0, a
    if name == "SEI": c = rng.choice([0, 0x10c, 0xffffffff, rng.randrange(1 << 32)]); return "SEI:%d" % c, None, 0, c
    if name == "UNK":
        t = rng.choice(T2_OTHER); b = bytes(rng.randrange(256) for _ in range(rng.choice([0, 4, 8, 12, 3])))
        return "UNK:%d:%s" % (t, b.hex()), None, 0, (t, b)
    if name == "FPBMP":
        rs = [rand_rect(rng) for _ in range(rng.choice([0, 1, 2, 2, 3]))]
        return "FPBMP:" + ("/".join(".".join(str(x) for x in r[:10]) + "." + r[10].hex() for r in rs) or "-"), None, len(rs), rs
    if name == "FPOTHER":
        c = rng.choice(FP_OTHER); b = bytes(rng.randrange(256) for _ in range(rng.choice([0, 0, 2, 4, 11])))
        return "FPOTHER:%d:%s" % (c, b.hex()), None, 0, (c, b)
    return {"SYNC": "SYNC", "COOP": "COOP", "GRANTED": "GRANTED", "FONTMAP": "FONTMAP", "DEACT": "DEACT"}[name], None, 0, None

def py_frame(name, ids, par):
    """the same letter through the python reference encoders (gen/rdp.py)"""
    kw = {"initiator": ids["ini"], "chan": ids["chan"]}
    def data(t2, payload):
        return slow_frame(share_control(0x17, share_data(t2, payload, share_id=ids["share"], stream=ids["stream"]), source=ids["src"]), **kw)
    if name == "DA":        # PDUSource 1002 and sessionId 0 are fixed in gen/rdp.py
        return slow_frame(demand_active(share_id=par[0], caps=[capset(t, b) for t, b in par[1]], source=ids["descr"]), **kw)
    if name == "DEACT": return slow_frame(deactivate_all(share_id=ids["share"], source=ids["descr"]), **kw)
    named = ids["src"] == 1002 and ids["stream"] == 1        # the named helpers of gen/rdp.py fix PDUSource 1002 and STREAM_LOW
    if name == "SYNC":
        return slow_frame(synchronize(ids["target"], share_id=ids["share"]), **kw) if named else data(0x1f, le16(1) + le16(ids["target"]))
    if name in ("COOP", "GRANTED", "CTRLOTHER"):
        a = {"COOP": 4, "GRANTED": 2}.get(name, par)
        return slow_frame(control(a, ids["grant"], ids["control"], share_id=ids["share"]), **kw) if named \
               else data(0x14, le16(a) + le16(ids["grant"]) + le32(ids["control"]))
    if name == "FONTMAP":
        return slow_frame(font_map(share_id=ids["share"]), **kw) if named else data(0x28, le16(0) + le16(0) + le16(3) + le16(4))
    if name == "SEI":
        return slow_frame(set_error_info(par, share_id=ids["share"]), **kw) if named else data(0x2f, le32(par))
    if name == "UNK":
        return slow_frame(unknown_data(par[0], par[1], share_id=ids["share"]), **kw) if named else data(par[0], par[1])
    if name == "FPBMP":
        rects = [bitmap_rect(r[0], r[1], r[2], r[3], r[4], r[5], r[6], r[7], r[10],
                             hdr=le16(0) + le16(len(r[10])) + le16(r[8]) + le16(r[9])) for r in par]
        return fp_frame(fp_bitmap(rects), action=ids["sec"] << 6, long=ids["long"])
    if name == "FPOTHER": return fp_frame(fp_update(par[0], par[1]), action=ids["sec"] << 6, long=ids["long"])
    raise ValueError(name)

def coq_frames(lines):
    """run `refenc` lines through the extracted Coq reference encoder"""
    if not lines: return []
    p = subprocess.run([REF_DRIVER], input=("\n".join(lines) + "\n").encode(), stdout=subprocess.PIPE, stderr=subprocess.DEVNULL, timeout=600)
    out = p.stdout.decode().split("\n")
    if out and out[-1] == "": out.pop()
    return out

def param_histories(rng, n, maxlen):
    """n histories whose letters carry random parameters; frames = the Coq reference encoder's, cross-checked with python's"""
    order = ["DA", "SYNC", "COOP", "GRANTED", "FONTMAP"]
    plan = []; req = []
    for _ in range(n):
        h = []; pos = 0
        for _ in range(rng.randrange(1, maxlen + 1)):
            r = rng.random()
            if r < 0.5 and pos < 5: l = order[pos]
            elif r < 0.58: l = "DEACT"
            elif r < 0.7 and pos == 5: l = "FPBMP"
            else: l = rng.choice(LETTERS)
            if pos < 5 and l == order[pos]: pos += 1
            elif pos == 5 and l == "DEACT": pos = 0
            ids = rand_ids(rng, fixed_source=l in ("DA", "DEACT"))
            tok, sid, nrect, par = rand_letter(rng, l)
            if l in ("FPBMP", "FPOTHER"):        # the short form carries at most 125 bytes of updates
                body = py_frame(l, dict(ids, long=True), par)[3:]
                if len(body) + 2 > 127: ids["long"] = True
            if l == "DA": par = (sid, par)
            h.append((l, sid, nrect, ids, par))
            req.append("refenc %d %d %d %d %d %s 0 %d %d %d %d %d %s" % (ids["ini"], ids["chan"], ids["src"], ids["share"], ids["stream"], hx(ids["descr"]),
                       ids["target"], ids["grant"], ids["control"], ids["sec"], 1 if ids["long"] else 0, tok))
        plan.append(h)
    try:
        got = coq_frames(req)
    except Exception as e:
        got = []
    cases = []; k = 0
    for h in plan:
        steps = [INPUTS[k % len(INPUTS)]]; bad = None; spec = []
        for j, (l, sid, nrect, ids, par) in enumerate(h):
            want = py_frame(l, ids, par)
            have = got[k] if k < len(got) else "missing"
            k += 1
            if have != hx(want) and bad is None:
                bad = "letter %d (%s): Coq reference encoder (RefSession.enc_smsg) gives %s, python reference encoder gives %s" % (j, req[k - 1], have[:400], hx(want)[:400])
            try: frame = bytes.fromhex(have) if have not in ("-", "missing") else want
            except ValueError: frame = want
            steps.append(R(frame)); steps.append(INPUTS[(k + j) % len(INPUTS)])
            spec.append((l, sid, nrect))
        cases.append((case(steps), ("hist", tuple(spec), None, bad)))
    return cases

def gen_cases(tier, rng):
    quick = tier == "quick"
    cases = []
    maxlen = 3 if quick else 5
    k = 0
    for n in range(0, maxlen + 1):
        for h in itertools.product(LETTERS, repeat=n):
            cases.append(history_case(h, rng, k)); k += 1
    # random longer histories, biased towards progress through the handshake
    order = ["DA", "SYNC", "COOP", "GRANTED", "FONTMAP"]
    for _ in range(2000 if quick else 20000):
        h = []; pos = 0
        for _ in range(rng.randrange(1, 13 if quick else 17)):
            r = rng.random()
            if r < 0.55 and pos < 5: l = order[pos]
            elif r < 0.65: l = "DEACT"
            else: l = rng.choice(LETTERS)
            h.append(l)
            if pos < 5 and l == order[pos]: pos += 1
            elif pos == 5 and l == "DEACT": pos = 0
        cases.append(history_case(h, rng, rng.randrange(8)))
    # control PDUs whose action shares bits with the expected one, at both control-waiting states
    tricky = [0x0104, 0x0204, 0x8004, 0xff04, 0x0400, 0x0302, 0x0102, 0x8002, 0x0200, 0, 1, 3, 5, 0xffff]
    for pos, good in ((2, 4), (3, 2)):
        for act in tricky:
            if act == good: continue
            pre = ["DA", "SYNC", "COOP"][:pos]
            steps = [INPUTS[0]]
            for l in pre: steps += [R(letter_frame(l, SHARE + 0x10001)), INPUTS[1]]
            steps += [R(slow_frame(control(act, share_id=SHARE + 0x10001))), INPUTS[2]]
            for skip_proper in (0, 1):
                # with the proper PDU following, and with the handshake continuing as if the wrong one had been accepted
                rest = ["COOP", "GRANTED", "FONTMAP"][pos - 2 + skip_proper:]
                st2 = list(steps)
                for l in rest: st2 += [R(letter_frame(l, SHARE + 0x10001)), INPUTS[3]]
                st2 += [R(letter_frame("FPBMP")), INPUTS[4]]
                cases.append((case(st2), ("hist", tuple(pre + ["CTRLOTHER"] + rest + ["FPBMP"]), None)))
    # several PDUs batched in one frame while in the window
    singles = {"SEI": set_error_info(7), "UNK": unknown_data(), "UNK2": unknown_data(0x36, b""), "BADDATA": data_pdu(0x1f, b"\x02\x00\x00\x00"),
               "DEACT": deactivate_all(), "FONTMAP": font_map(), "SYNC": synchronize()}
    act = ["DA", "SYNC", "COOP", "GRANTED", "FONTMAP"]
    names = sorted(singles)
    for a in names:
        for b in names:
            for c in ([None] + (names if not quick else ["DEACT"])):
                batch = [a, b] + ([c] if c else [])
                body = b"".join(singles[x] for x in batch)
                steps = [INPUTS[0]]
                for l in act: steps += [R(letter_frame(l, SHARE + 0x10001)), INPUTS[1]]
                steps += [R(slow_frame(body)), INPUTS[5], R(letter_frame("FPBMP")), INPUTS[6]]
                letter = "DEACT" if "DEACT" in batch else "SEI"
                cases.append((case(steps), ("hist", tuple(act + [letter, "FPBMP"]), None)))
    # letters with random parameters through the extracted Coq reference encoder (cross-checked with gen/rdp.py)
    cases += param_histories(rng, 1500 if quick else 15000, 12 if quick else 16)
    return cases

def classify(line, out):
    steps, _ = parse_out(out)
    ks = sorted(set(s[0] for s in steps))
    return ",".join(ks)

def shape(line):
    return hash(line)

def nontrivial(line, out):
    # a demand-active was answered somewhere in the run
    steps, _ = parse_out(out)
    return any(s[1] and len(s[1]) > 300 for s in steps)

def oracle(line, out, expect):
    steps, _ = parse_out(out)
    for s in steps:
        if s[0] in ("panic", "spin", "crashed"): return "crashed: " + s[0]
    if expect is None: return None
    if len(expect) > 3 and expect[3]: return "reference encoders disagree: " + expect[3]
    letters, k0 = expect[1], expect[2]
    toks = line.split()[6:]
    if len(steps) != len(toks): return "run stopped early: %d of %d steps" % (len(steps), len(toks))
    ref = RefAutomaton()
    sid = SHARE
    li = 0
    for i, (tok, (res, wb, nev, evs)) in enumerate(zip(toks, steps)):
        if wb is None: return "step %d: unexpectedly large output" % i
        try:
            frames = [dec_client_frame(f, UID, None) for f in split_frames(wb)]
        except Bad as e:
            return "step %d: emitted bytes are not well-formed client PDUs: %s" % (i, e)
        except Exception as e:
            return "step %d: emitted bytes do not decode: %r" % (i, e)
        if tok.startswith("R:"):
            l = letters[li]; li += 1
            nrect = 2
            if isinstance(l, tuple):            # (letter, share id of a demand-active, rectangles of a fast-path bitmap)
                l, lsid, nrect = l
                if l == "DA": sid = lsid
            elif l == "DA": sid = (sid + 0x10001) & 0xffffffff
            inwin = ref.window()
            exp, nexp = ref.feed(l, sid)
            if l == "FPBMP": nexp = nrect if inwin else 0
            got = []
            for f in frames:
                if f[0] == "confirm": got.append(("confirm", f[1]))
                elif f[0] == "control": got.append(("control", f[1]))
                else: got.append((f[0],))
            if got != exp:
                return "step %d (%s): client emitted %s, reference automaton expects %s" % (i, l, got, exp)
            if nev != nexp:
                return "step %d (%s): %d bitmap events delivered, expected %d" % (i, l, nev, nexp)
            # share id carried by the finalization PDUs
            for f in split_frames(wb)[1:]:
                try: dec_client_frame(f, UID, ref.share)
                except Bad as e: return "step %d: finalization PDU: %s" % (i, e)
        else:
            want = expected_input(tok)
            lenient = tok.startswith("T")
            if ref.window():
                if res != "ok" or frames != [("input", [want])]:
                    return "step %d: input %s inside the window: result %s, frames %s (expected exactly one input PDU %s)" % (i, tok, res, frames, want)
                try: dec_client_frame(split_frames(wb)[0], UID, ref.share)
                except Bad as e: return "step %d: input PDU: %s" % (i, e)
            else:
                if wb != b"":
                    return "step %d: input %s outside the window put %d bytes on the wire" % (i, tok, len(wb))
                if lenient and res != "ok": return "step %d: lenient write outside the window returned %s" % (i, res)
                if not lenient and not res.startswith("err:"): return "step %d: strict write outside the window returned %s" % (i, res)
            if nev: return "step %d: bitmap events on a write" % i
    return None
from ties import of as _tie_of; TIE_LAYOUTS, TIE_PINS, TIE_ENUMS = _tie_of("C12")   # static-tie lemmas (coq/Gen/Tie) this property depends on
