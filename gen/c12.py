"""C12: activation state machine -- one finalization per demand-active, input gated.
Case: a history over the 11-letter alphabet of server messages with an input attempt after every step."""
import itertools
from session import *

RULE = ("histories over {demand-active, synchronize, control-cooperate, control-granted, control-other, font-map, "
        "set-error-info, unknown data PDU, deactivate-all, fast-path bitmap, fast-path other}: quick = every history of "
        "length <= 3 plus 2000 random ones of length <= 12; thorough = every history of length <= 5 plus 20000 random of "
        "length <= 16; an input attempt (pointer/key, strict and lenient write, rotating) after every step and before the "
        "first.  Each outcome is judged by an independent reference automaton and a strict decoder of the emitted PDUs.  "
        "Non-trivial = the history contains at least one demand-active; distinct = distinct histories.")
TRUSTED_BASE = ["Coq 8.16.1 kernel", "hand-written models coq/Msg.v (message interpreter), coq/LayoutsGlobal.v (PDU layouts), coq/Global.v (state machine) tied to /repo by this correspondence run",
                "extraction (ExtrOcamlBasic only) + ocaml/session/driver.ml", "Rust harness/src/session.rs; hooks x224::verif_new, mcs::verif_connected, RdpClient::verif_new",
                "gen/rdp.py reference encoders and gen/session.py reference automaton / strict decoder (the oracle)"]
ASSUMPTIONS = ["the transport accepts every write (C14 covers short writes) and delivers whole frames (C13 covers fragmentation)",
               "the server PDUs of the alphabet are the well-formed encodings produced by gen/rdp.py"]

INPUTS = ["P:10:20:1:1", "TK:30:1", "K:30:0", "TP:65535:0:0:0", "P:1:2:2:0", "TK:57:0", "TP:3:4:3:1", "K:1:1"]

def history_case(letters, rng=None, k0=0):
    steps = [INPUTS[k0 % len(INPUTS)]]
    sid = SHARE
    for i, l in enumerate(letters):
        if l == "DA": sid = (sid + 0x10001) & 0xffffffff
        steps.append(R(letter_frame(l, sid, rng)))
        steps.append(INPUTS[(k0 + i + 1) % len(INPUTS)])
    return case(steps), ("hist", tuple(letters), k0)

def gen_cases(tier, rng):
    quick = tier == "quick"
    cases = []
    maxlen = 3 if quick else 5
    k = 0
    for n in range(0, maxlen + 1):
        for h in itertools.product(LETTERS, repeat=n):
            cases.append(history_case(h, rng, k)); k += 1
    # random longer histories, biased towards progress through the handshake
    order = ["DA", "SYNC", "COOP", "GRANTED", "FONTMAP"]
    for _ in range(2000 if quick else 20000):
        h = []; pos = 0
        for _ in range(rng.randrange(1, 13 if quick else 17)):
            r = rng.random()
            if r < 0.55 and pos < 5: l = order[pos]
            elif r < 0.65: l = "DEACT"
            else: l = rng.choice(LETTERS)
            h.append(l)
            if pos < 5 and l == order[pos]: pos += 1
            elif pos == 5 and l == "DEACT": pos = 0
        cases.append(history_case(h, rng, rng.randrange(8)))
    # control PDUs whose action shares bits with the expected one, at both control-waiting states
    tricky = [0x0104, 0x0204, 0x8004, 0xff04, 0x0400, 0x0302, 0x0102, 0x8002, 0x0200, 0, 1, 3, 5, 0xffff]
    for pos, good in ((2, 4), (3, 2)):
        for act in tricky:
            if act == good: continue
            pre = ["DA", "SYNC", "COOP"][:pos]
            steps = [INPUTS[0]]
            for l in pre: steps += [R(letter_frame(l, SHARE + 0x10001)), INPUTS[1]]
            steps += [R(slow_frame(control(act, share_id=SHARE + 0x10001))), INPUTS[2]]
            for skip_proper in (0, 1):
                # with the proper PDU following, and with the handshake continuing as if the wrong one had been accepted
                rest = ["COOP", "GRANTED", "FONTMAP"][pos - 2 + skip_proper:]
                st2 = list(steps)
                for l in rest: st2 += [R(letter_frame(l, SHARE + 0x10001)), INPUTS[3]]
                st2 += [R(letter_frame("FPBMP")), INPUTS[4]]
                cases.append((case(st2), ("hist", tuple(pre + ["CTRLOTHER"] + rest + ["FPBMP"]), None)))
    # several PDUs batched in one frame while in the window
    singles = {"SEI": set_error_info(7), "UNK": unknown_data(), "UNK2": unknown_data(0x36, b""), "BADDATA": data_pdu(0x1f, b"\x02\x00\x00\x00"),
               "DEACT": deactivate_all(), "FONTMAP": font_map(), "SYNC": synchronize()}
    act = ["DA", "SYNC", "COOP", "GRANTED", "FONTMAP"]
    names = sorted(singles)
    for a in names:
        for b in names:
            for c in ([None] + (names if not quick else ["DEACT"])):
                batch = [a, b] + ([c] if c else [])
                body = b"".join(singles[x] for x in batch)
                steps = [INPUTS[0]]
                for l in act: steps += [R(letter_frame(l, SHARE + 0x10001)), INPUTS[1]]
                steps += [R(slow_frame(body)), INPUTS[5], R(letter_frame("FPBMP")), INPUTS[6]]
                letter = "DEACT" if "DEACT" in batch else "SEI"
                cases.append((case(steps), ("hist", tuple(act + [letter, "FPBMP"]), None)))
    return cases

def classify(line, out):
    steps, _ = parse_out(out)
    ks = sorted(set(s[0] for s in steps))
    return ",".join(ks)

def shape(line):
    return hash(line)

def nontrivial(line, out):
    # a demand-active was answered somewhere in the run
    steps, _ = parse_out(out)
    return any(s[1] and len(s[1]) > 300 for s in steps)

def oracle(line, out, expect):
    steps, _ = parse_out(out)
    for s in steps:
        if s[0] in ("panic", "spin", "crashed"): return "crashed: " + s[0]
    if expect is None: return None
    letters, k0 = expect[1], expect[2]
    toks = line.split()[6:]
    if len(steps) != len(toks): return "run stopped early: %d of %d steps" % (len(steps), len(toks))
    ref = RefAutomaton()
    sid = SHARE
    li = 0
    for i, (tok, (res, wb, nev, evs)) in enumerate(zip(toks, steps)):
        if wb is None: return "step %d: unexpectedly large output" % i
        try:
            frames = [dec_client_frame(f, UID, None) for f in split_frames(wb)]
        except Bad as e:
            return "step %d: emitted bytes are not well-formed client PDUs: %s" % (i, e)
        except Exception as e:
            return "step %d: emitted bytes do not decode: %r" % (i, e)
        if tok.startswith("R:"):
            l = letters[li]; li += 1
            if l == "DA": sid = (sid + 0x10001) & 0xffffffff
            exp, nexp = ref.feed(l, sid)
            got = []
            for f in frames:
                if f[0] == "confirm": got.append(("confirm", f[1]))
                elif f[0] == "control": got.append(("control", f[1]))
                else: got.append((f[0],))
            if got != exp:
                return "step %d (%s): client emitted %s, reference automaton expects %s" % (i, l, got, exp)
            if nev != nexp:
                return "step %d (%s): %d bitmap events delivered, expected %d" % (i, l, nev, nexp)
            # share id carried by the finalization PDUs
            for f in split_frames(wb)[1:]:
                try: dec_client_frame(f, UID, ref.share)
                except Bad as e: return "step %d: finalization PDU: %s" % (i, e)
        else:
            want = expected_input(tok)
            lenient = tok.startswith("T")
            if ref.window():
                if res != "ok" or frames != [("input", [want])]:
                    return "step %d: input %s inside the window: result %s, frames %s (expected exactly one input PDU %s)" % (i, tok, res, frames, want)
                try: dec_client_frame(split_frames(wb)[0], UID, ref.share)
                except Bad as e: return "step %d: input PDU: %s" % (i, e)
            else:
                if wb != b"":
                    return "step %d: input %s outside the window put %d bytes on the wire" % (i, tok, len(wb))
                if lenient and res != "ok": return "step %d: lenient write outside the window returned %s" % (i, res)
                if not lenient and not res.startswith("err:"): return "step %d: strict write outside the window returned %s" % (i, res)
            if nev: return "step %d: bitmap events on a write" % i
    return None
from ties import of as _tie_of; TIE_LAYOUTS, TIE_PINS, TIE_ENUMS = _tie_of("C12")   # static-tie lemmas (coq/Gen/Tie) this property depends on
