"""C17: secrets leave the client only where the chosen mode says they may -- generator and oracle.
Case line (harness/src/secrets.rs): the real Connector::connect, configured through its public builder, against a
scripted server thread (in-memory duplex upgrading to a real native_tls acceptor; CredSSP / NTLM server replies
precomputed here from the preset client randomness with gen/credssp.py + gen/nlmp.py; MCS / GCC / licence replies from
gen/rdpconn.py):
  sec17 <nla> <ram> <blank> <auto> <check> <identity 0|1|n> <join order g|u> <name> <domain> <user> <password> <NT hash | ->
        <upper(user)> <rnd: nonce(8) ++ exported session key(16)> <subjectPublicKey> <reply to the connection request>
        <script: reply groups separated by '/', group = '-' | chunk,chunk..>
  -> <ok | err:Kind | panic> raw=<frames before TLS> hs=<- | ok | fail> tls=<units inside TLS>  # rawall=<all raw bytes>
The ORACLE is independent of the Coq model: it unseals pubKeyAuth and authInfo with the MS-NLMP reference (gen/nlmp.py)
under the exported session key, parses TSCredentials / TSPasswordCreds (DER), parses the connection request and the Client
Info PDU with the strict parsers of gen/strictpdu.py, checks the MODE TABLE of the property, and searches the UTF-8 and
UTF-16LE password and the NT hash in every byte the client put on the raw transport (TLS records included), in both NTLM
tokens, in the TSRequest wrappers, in the sealed blobs and in every TLS-plaintext unit other than the Client Info PDU."""
from common import *
import struct, hashlib
import nlmp, credssp, rdpconn
import strictpdu as S

GROUP = "secrets"
MODEL_FILES = ["coq/Secrets.v", "coq/SecretsExec.v", "coq/Connect.v", "coq/CsspGate.v", "coq/CsspGateExec.v", "coq/Ntlm.v", "coq/NtlmSeal.v",
               "coq/ClientPdus.v", "coq/Utf.v", "coq/DerRead.v", "coq/BerYasna.v"]
PROFILES = ["debug", "release"]
RULE = ("all 32 combinations of {NLA, restricted admin, blank creds, auto logon, password | NT hash} x credential classes "
        "{empty, ASCII, Latin-1, CJK, non-BMP, long (300 code points)} against an honest scripted server (TLS with the fixture "
        "certificate, CredSSP/NTLMv2 with UNICODE, MCS/GCC/licence up to the Client Info PDU), plus: CHALLENGE without the UNICODE "
        "flag (OEM strings), NLA offered but SSL selected, server version RDP4 (no extended info) / RDP5+, both join orders, I/O channel ids "
        "announced by the server in {1003, 1005, 1007, 1002, 2000, 0x8000, 65535, 1} (thorough: random), a password "
        "supplied TOGETHER with an NT hash, an NT hash that is / is not MD4 of the password, passwords of 1..2 code units (search "
        "skipped), a Client Info beyond the TPKT length (refused), check_certificate with the untrusted / trusted fixture "
        "certificate, a server that does not prove the session key (credentials never sent), a refused negotiation.  Observation = "
        "every frame written before TLS, the handshake, every unit received inside TLS, the result; the extracted model must print "
        "the same bytes.  distinct = distinct (mode bits, credential classes, server variant, outcome).")
TRUSTED_BASE = ["Coq 8.16.1 kernel (vm_compute in the non-vacuity example)",
                "hand-written model coq/Secrets.v composing Connect.v (connection sequence, transport event trace), CsspGate.v + CsspGateExec.v "
                "(cssp_connect), Ntlm.v / NtlmSeal.v (NTLMv2, sealing), ClientPdus.v (emitters), tied to /repo by this byte-for-byte correspondence run",
                "coq/StrictPdu.v (spec of the Client Info / connection request decode used in the theorems)",
                "extraction (ExtrOcamlBasic only) + ocaml/secrets/driver.ml",
                "Rust harness/src/secrets.rs (in-memory duplex, native_tls acceptor with fixture certificates, scripted server thread), hook model::rnd::verif (preset client randomness)",
                "python oracle gen/c17.py over gen/nlmp.py, gen/credssp.py, gen/strictpdu.py, gen/rdpconn.py",
                "external and not modelled: native-tls / OpenSSL (the TLS records are only searched, not modelled; the handshake is an oracle of the model), "
                "x509-parser (the subjectPublicKey bytes are a parameter of the model), yasna (DerRead.v / BerYasna.v models), String::to_uppercase (oracle input)"]
ASSUMPTIONS = ["the literal statement `the password bytes occur nowhere else` cannot be a theorem about hash / cipher outputs: the theorems are non-interference "
               "(raw bytes and NEGOTIATE independent of the secret), factorisation (AUTHENTICATE and pubKeyAuth depend on the password only through NTOWFv2) and a "
               "complete classification of the written messages; the SUBSTRING SEARCH is done by this correspondence run on real transcripts",
               "substring search: skipped for passwords shorter than 3 UTF-16 code units and for any single pattern shorter than 6 bytes (chance matches in ~4 kB of TLS "
               "records), and for a pattern that also occurs in the (non-secret) domain / user / client name encodings",
               "hash mode: Connector keeps `password` and `password_hash` separately; TSPasswordCreds carries an EMPTY password, the Client Info PDU carries the "
               "`password` field as configured (empty unless the caller also supplied one); the NT hash itself is never transmitted",
               "one TLS record per server message; one transport read returns one CredSSP reply of at most 1500 bytes",
               "the two channel joins are emitted in HashMap order: the harness repeats the run until the order named in the case line comes up"]

UID = 1004
IO_IDS = [1003, 1003, 1005, 1007, 1002, 2000, 0x8000, 65535, 1]     # I/O channel ids the scripted server announces (never the user id)
NEG_TOKEN = bytes.fromhex("4e544c4d53535000010000003582086000000000000000000000000000000000")

def cps(s): return ".".join("%x" % ord(c) for c in s) or "-"
def uncps(t): return "" if t == "-" else "".join(chr(int(h, 16)) for h in t.split("."))
def rbytes(rng, n): return bytes(rng.randrange(256) for _ in range(n))

# ------------------------------------------------------------------ credential classes
def s_ascii(rng, n): return "".join(chr(rng.randrange(0x21, 0x7f)) for _ in range(n))
def s_latin1(rng, n): return "".join(chr(rng.randrange(0xa1, 0x100)) for _ in range(n))
def s_cjk(rng, n): return "".join(chr(rng.randrange(0x4e00, 0xa000)) for _ in range(n))
def s_astral(rng, n): return "".join(chr(rng.choice([0x1f600, 0x1f4a9, 0x2070e, 0x10000, 0x10ffff, rng.randrange(0x10000, 0x110000)])) for _ in range(n))
CLASSES = ["empty", "ascii", "latin1", "cjk", "astral", "long"]
def cred(rng, cls, n=None):
    if cls == "empty": return ""
    if cls == "ascii": return s_ascii(rng, n or rng.randrange(6, 17))
    if cls == "latin1": return s_latin1(rng, n or rng.randrange(4, 13))
    if cls == "cjk": return s_cjk(rng, n or rng.randrange(3, 9))
    if cls == "astral": return s_astral(rng, n or rng.randrange(3, 7))
    if cls == "long": return s_ascii(rng, 100) + s_latin1(rng, 100) + s_cjk(rng, 60) + s_astral(rng, 40)
    raise ValueError(cls)

# ------------------------------------------------------------------ a case
class Case:
    def __init__(self, rng, nla=1, ram=0, blank=0, auto=0, check=0, ident="0", jo="g", name="rdp-rs", dom="", user="", pw="", nthash=None,
                 selected=None, version=0x00080004, flags=None, variant="honest", io=1003):
        self.nla, self.ram, self.blank, self.auto, self.check, self.ident, self.jo = nla, ram, blank, auto, check, ident, jo
        self.name, self.dom, self.user, self.pw, self.nthash = name, dom, user, pw, nthash
        self.selected = (2 if nla else 1) if selected is None else selected
        self.version, self.variant, self.io = version, variant, io
        self.flags = (nlmp.CLIENT_FLAGS | nlmp.NEG_VERSION) if flags is None else flags
        self.nonce, self.key = rbytes(rng, 8), rbytes(rng, 16)
        cert = 0 if ident == "n" else int(ident)
        self.pubkey = credssp.pubkey(cert)
        ti = nlmp.av_pairs([(2, nlmp.utf16("DOM")), (1, nlmp.utf16("SRV")), (7, rbytes(rng, 8)), (3, nlmp.utf16("srv.dom"))])
        self.chal = nlmp.challenge_message(self.flags, rbytes(rng, 8), ti, target_name=nlmp.utf16("DOM"), version=rbytes(rng, 8))
        self.cc = rdpconn.cc_frame(self.selected) if variant != "neg-failure" else rdpconn.tpkt(rdpconn.x224_cc(rdpconn.neg_rsp(2, typ=3)))
        groups = []
        if self.selected == 2:
            acct_hash = nthash if nthash is not None else nlmp.nt_hash(pw)
            s2c = nlmp.session(self.key)[1]
            proof = s2c.seal(credssp.le_add(self.pubkey, 2 if variant == "no-proof" else 1))
            groups += [[credssp.ts_request(nego=self.chal)], [credssp.ts_request(pub_key_auth=proof)], []]
        # the I/O channel id is the server's choice (MCSChannelId of the server network data): joins and licence follow it
        chans = [io, UID] if jo == "g" else [UID, io]
        conv = [rdpconn.mcs_connect_response_frame(rdpconn.gcc_ccr(rdpconn.sc_core(version) + rdpconn.sc_security() + rdpconn.sc_net(io=io))),
                rdpconn.attach_frame(uid=UID), rdpconn.join_frame(uid=UID, chan=chans[0]), rdpconn.join_frame(uid=UID, chan=chans[1]),
                rdpconn.license_frame(uid=UID, chan=io)]
        groups += [[conv[0]], [], [conv[1]], [conv[2]], [conv[3]], [conv[4]]]
        self.groups = groups
    def line(self):
        script = "/".join(",".join(hx(c) for c in g) if g else "-" for g in self.groups)
        return "sec17 %d %d %d %d %d %s %s %s %s %s %s %s %s %s %s %s %s" % (
            self.nla, self.ram, self.blank, self.auto, self.check, self.ident, self.jo, cps(self.name), cps(self.dom), cps(self.user), cps(self.pw),
            self.nthash.hex() if self.nthash is not None else "-", cps(self.user.upper()), (self.nonce + self.key).hex(), self.pubkey.hex(),
            hx(self.cc), script)
    def expect(self):
        return dict(variant=self.variant, selected=self.selected, version=self.version, flags=self.flags, chal=self.chal.hex(), io=self.io)

def gen_cases(tier, rng):
    quick = tier == "quick"
    cases = []
    def add(c): cases.append((c.line(), c.expect()))
    # the 32 mode combinations x the 6 credential classes (the class applies to the password; domain and user rotate through the others)
    k = 0
    for cls_i, cls in enumerate(CLASSES):
        for bits in range(32):
            nla, ram, blank, auto, hashmode = [(bits >> i) & 1 for i in range(5)]
            pw = cred(rng, cls)
            dom = cred(rng, CLASSES[(cls_i + 1 + bits) % 5]) if cls != "long" else cred(rng, "ascii")
            user = cred(rng, CLASSES[1 + (cls_i + bits) % 4]) if cls != "long" else cred(rng, "latin1")
            if cls == "long" and bits % 4 == 3: dom, user = cred(rng, "long"), cred(rng, "long")
            nthash = None
            if hashmode:
                # hash mode: the configured password is normally empty; every 4th case supplies BOTH
                nthash = nlmp.nt_hash(pw) if bits & 1 else rbytes(rng, 16)
                if k % 4 != 0: pw = ""
            k += 1
            add(Case(rng, nla=nla, ram=ram, blank=blank, auto=auto, jo="gu"[k % 2], dom=dom, user=user, pw=pw, nthash=nthash,
                     version=[0x00080004, 0x00080001][(k // 2) % 2], name=["rdp-rs", "mstsc-rs", "клиент", "c\U0001f600"][k % 4],
                     io=IO_IDS[k % len(IO_IDS)]))
    # CHALLENGE without UNICODE (OEM strings in TSPasswordCreds and in the AUTHENTICATE), with / without VERSION
    for bits in range(8):
        ram, blank, hashmode = bits & 1, (bits >> 1) & 1, (bits >> 2) & 1
        pw = cred(rng, ["ascii", "latin1", "cjk", "astral"][bits % 4])
        add(Case(rng, ram=ram, blank=blank, auto=bits & 1, dom=cred(rng, "ascii"), user=cred(rng, "latin1"), pw=pw if not hashmode else "",
                 nthash=nlmp.nt_hash(pw) if hashmode else None, flags=nlmp.CLIENT_FLAGS & ~nlmp.NEG_UNICODE | (nlmp.NEG_VERSION if bits & 2 else 0),
                 variant="oem"))
    # NLA offered, the server selects SSL: no CredSSP at all
    for bits in range(8):
        ram, blank, auto = bits & 1, (bits >> 1) & 1, (bits >> 2) & 1
        add(Case(rng, nla=1, selected=1, ram=ram, blank=blank, auto=auto, dom=cred(rng, "ascii"), user=cred(rng, "cjk"), pw=cred(rng, "astral"), variant="ssl-selected"))
    # short passwords (substring search skipped), still subject to the mode table
    for n in (1, 2):
        for nla in (0, 1):
            add(Case(rng, nla=nla, dom="D", user="u", pw=s_ascii(rng, n), variant="short"))
    # a Client Info that does not fit a TPKT frame: refused, nothing of it written
    add(Case(rng, nla=1, dom="d", user="u", pw="p" * 33000, variant="oversize"))
    add(Case(rng, nla=0, dom="d", user="u", pw="\U0001f600" * 17000, variant="oversize"))
    # certificate checking
    add(Case(rng, nla=1, check=1, ident="1", dom="DOM", user="user", pw=cred(rng, "ascii"), variant="untrusted"))
    add(Case(rng, nla=0, check=1, ident="1", dom="DOM", user="user", pw=cred(rng, "ascii"), variant="untrusted"))
    add(Case(rng, nla=1, check=1, ident="0", dom="DOM", user="user", pw=cred(rng, "ascii"), variant="honest"))
    add(Case(rng, nla=1, check=0, ident="1", dom="DOM", user="user", pw=cred(rng, "latin1"), variant="honest"))
    # the server does not prove the session key: the credentials are never sent (C01's business; here: nothing leaks either)
    for bits in range(4):
        add(Case(rng, nla=1, ram=bits & 1, blank=bits >> 1, dom="DOM", user="user", pw=cred(rng, "ascii"), variant="no-proof"))
    # negotiation failure: only the request was written
    add(Case(rng, nla=1, ram=1, dom="DOM", user="user", pw=cred(rng, "ascii"), variant="neg-failure"))
    add(Case(rng, nla=0, selected=2, dom="DOM", user="user", pw=cred(rng, "ascii"), variant="not-requested"))
    # downgrade attempt: the server answers the negotiation with PROTOCOL_RDP (0) although TLS / NLA was requested, then plays
    # the MCS / licence conversation in clear: whatever the client does, the password must not reach the raw transport
    for bits in range(8):
        nla, ram, auto = bits & 1, (bits >> 1) & 1, (bits >> 2) & 1
        add(Case(rng, nla=nla, selected=0, ram=ram, auto=auto, dom=cred(rng, "ascii"), user=cred(rng, "latin1"),
                 pw=cred(rng, ["ascii", "cjk", "astral", "latin1"][bits % 4]), variant="downgrade"))
    if not quick:
        for _ in range(400):
            cls = rng.choice(CLASSES[:5])
            hashmode = rng.randrange(2)
            pw = cred(rng, cls)
            add(Case(rng, nla=rng.randrange(2), ram=rng.randrange(2), blank=rng.randrange(2), auto=rng.randrange(2), jo=rng.choice("gu"),
                     dom=cred(rng, rng.choice(CLASSES[:5])), user=cred(rng, rng.choice(CLASSES[:5])), pw=pw if (not hashmode or rng.random() < 0.3) else "",
                     nthash=(nlmp.nt_hash(pw) if rng.random() < 0.5 else rbytes(rng, 16)) if hashmode else None,
                     version=rng.choice([0x00080004, 0x00080001]), name=cred(rng, rng.choice(CLASSES[1:5])),
                     flags=rng.choice([None, None, nlmp.CLIENT_FLAGS, nlmp.CLIENT_FLAGS & ~nlmp.NEG_UNICODE]),
                     io=rng.choice(IO_IDS + [rng.choice([x for x in range(1, 65536) if x != UID])])))
    return cases

# ------------------------------------------------------------------ the oracle
def _tlv(b, i=0):
    if i + 2 > len(b): raise ValueError("DER: truncated header")
    tag, l0 = b[i], b[i + 1]; i += 2
    if l0 < 0x80: n = l0
    else:
        k = l0 & 0x7f
        if k == 0 or i + k > len(b): raise ValueError("DER: bad length")
        n = int.from_bytes(b[i:i + k], "big"); i += k
    if i + n > len(b): raise ValueError("DER: value overruns")
    return tag, b[i:i + n], i + n

def _seq_items(body):
    out = []; i = 0
    while i < len(body):
        t, v, i = _tlv(body, i); out.append((t, v))
    return out

def parse_ts_request(b):
    """-> dict(version, nego (first token), authInfo, pubKeyAuth); exact consumption"""
    t, body, end = _tlv(b)
    if t != 0x30 or end != len(b): raise ValueError("TSRequest: not one SEQUENCE")
    o = {}
    for tag, v in _seq_items(body):
        if tag == 0xa0:
            t2, iv, e2 = _tlv(v); o["version"] = int.from_bytes(iv, "big")
        elif tag == 0xa1:
            t2, l1, _ = _tlv(v); t3, l2, _ = _tlv(l1); t4, l3, _ = _tlv(l2); t5, tok, _ = _tlv(l3)
            if (t2, t3, t4, t5) != (0x30, 0x30, 0xa0, 0x04): raise ValueError("negoTokens shape")
            o["nego"] = tok
        elif tag == 0xa2:
            t2, x, _ = _tlv(v); o["authInfo"] = x
        elif tag == 0xa3:
            t2, x, _ = _tlv(v); o["pubKeyAuth"] = x
        else: raise ValueError("TSRequest: unexpected field %#x" % tag)
    return o

def parse_ts_credentials(b):
    """TSCredentials { [0] credType = 1, [1] OCTET STRING { TSPasswordCreds { [0] domain, [1] user, [2] password } } } -> (domain, user, password) bytes"""
    t, body, end = _tlv(b)
    if t != 0x30 or end != len(b): raise ValueError("TSCredentials: not one SEQUENCE")
    items = _seq_items(body)
    if [x[0] for x in items] != [0xa0, 0xa1]: raise ValueError("TSCredentials fields")
    if _tlv(items[0][1])[:2] != (0x02, b"\x01"): raise ValueError("credType is not 1 (password)")
    t2, inner, _ = _tlv(items[1][1])
    if t2 != 0x04: raise ValueError("credentials is not an OCTET STRING")
    t3, pc, e3 = _tlv(inner)
    if t3 != 0x30 or e3 != len(inner): raise ValueError("TSPasswordCreds: not one SEQUENCE")
    f = _seq_items(pc)
    if [x[0] for x in f] != [0xa0, 0xa1, 0xa2]: raise ValueError("TSPasswordCreds fields")
    out = []
    for _, v in f:
        t4, s, e4 = _tlv(v)
        if t4 != 0x04 or e4 != len(v): raise ValueError("TSPasswordCreds member is not an OCTET STRING")
        out.append(s)
    return tuple(out)

def cfg_of_line(line):
    t = line.split()
    return dict(nla=int(t[1]), ram=int(t[2]), blank=int(t[3]), auto=int(t[4]), check=int(t[5]), ident=t[6], jo=t[7], name=uncps(t[8]),
                dom=uncps(t[9]), user=uncps(t[10]), pw=uncps(t[11]), nthash=None if t[12] == "-" else bytes.fromhex(t[12]),
                rnd=bytes.fromhex(t[14]), pubkey=bytes.fromhex(t[15]), cc=t[16], script=t[17])

def split_out(out_full):
    parts = out_full.split(" #")
    t = parts[0].split()
    d = {"res": t[0] if t else "crashed", "raw": [], "hs": "?", "tls": [], "rawall": b""}
    for x in t[1:]:
        if x.startswith("raw="): d["raw"] = [] if x[4:] == "-" else [bytes.fromhex(h) for h in x[4:].split(",")]
        elif x.startswith("hs="): d["hs"] = x[3:]
        elif x.startswith("tls="): d["tls"] = [] if x[4:] == "-" else [bytes.fromhex(h) for h in x[4:].split(",")]
    if len(parts) > 1:
        for x in parts[1].split():
            if x.startswith("rawall=") and x[7:] != "-": d["rawall"] = bytes.fromhex(x[7:])
    return d

def secret_patterns(c):
    """(label, bytes) the oracle searches for; short / ambiguous ones are dropped (see ASSUMPTIONS)"""
    pats = []
    pw = c["pw"]
    public = [c["dom"], c["user"], c["name"], "DOM", "SRV", "srv.dom"]
    if len(pw.encode("utf-16-le")) // 2 >= 3:
        for lab, enc in (("UTF-16LE password", "utf-16-le"), ("UTF-8 password", "utf-8")):
            p = pw.encode(enc)
            if len(p) < 6: continue
            if any(p in s.encode(enc) for s in public): continue
            pats.append((lab, p))
    hashes = []
    if c["nthash"] is not None: hashes.append(("configured NT hash", c["nthash"]))
    if pw: hashes.append(("NT hash of the password", nlmp.nt_hash(pw)))
    for lab, h in hashes:
        if len(h) >= 6: pats.append((lab, h))
    return pats

def oracle(line, out_full, expect):
    c = cfg_of_line(line)
    o = split_out(out_full)
    res = o["res"]
    if res in ("panic", "crashed", "spin") or "panic" in res: return "Connector::connect crashed: " + out_full[:120]
    key = c["rnd"][8:24]
    pats = secret_patterns(c)
    # ---- the raw transport: exactly the connection request before TLS; no secret in ANY raw byte (TLS records included)
    if len(o["raw"]) != 1: return "expected exactly one frame (the connection request) before TLS, got %d" % len(o["raw"])
    try:
        kind, f = S.client_frame(o["raw"][0])
    except S.Bad as e:
        return "the frame written before TLS is not a well-formed connection request: %s" % e
    if kind != "connection-request" or f["neg"] is None: return "the frame written before TLS is not a connection request with RDP_NEG_REQ"
    want_flag, want_proto = (1 if c["ram"] else 0), (3 if c["nla"] else 1)
    if f["neg"]["flags"] != want_flag:
        return "RDP_NEG_REQ flags = %d, the mode says %d (RESTRICTED_ADMIN_MODE_REQUIRED exactly when restricted admin is on)" % (f["neg"]["flags"], want_flag)
    if f["neg"]["protocols"] != want_proto: return "requested protocols = %d, the configuration says %d" % (f["neg"]["protocols"], want_proto)
    for lab, p in pats:
        if p in o["rawall"]: return "the %s occurs in the bytes written on the raw transport (offset %d)" % (lab, o["rawall"].find(p))
        for fr in o["raw"]:
            if p in fr: return "the %s occurs in a frame written before TLS" % lab
    if o["tls"] and o["hs"] != "ok": return "units inside TLS without a completed handshake"
    # ---- inside TLS
    units = o["tls"]
    cssp = [u for u in units if u[:1] == b"\x30"]
    frames = [u for u in units if u[:1] == b"\x03"]
    if units != cssp + frames: return "CredSSP messages after the first RDP frame"
    sel = expect["selected"] if expect else (2 if cssp else 1)
    if cssp and not (c["nla"] and sel == 2): return "CredSSP messages although NLA was not negotiated"
    creds_sent = None
    if cssp:
        if len(cssp) > 3: return "more than three CredSSP messages"
        try:
            reqs = [parse_ts_request(u) for u in cssp]
        except ValueError as e:
            return "malformed TSRequest from the client: %s" % e
        if set(reqs[0]) != {"version", "nego"}: return "first TSRequest is not {version, negoTokens}"
        nego = reqs[0]["nego"]
        if nego[:12] != b"NTLMSSP\x00\x01\x00\x00\x00": return "first token is not an NTLM NEGOTIATE"
        for lab, p in pats:
            if p in cssp[0]: return "the %s occurs in the NEGOTIATE TSRequest" % lab
        c2s = nlmp.session(key)[0]
        if len(cssp) >= 2:
            if set(reqs[1]) != {"version", "nego", "pubKeyAuth"}: return "second TSRequest is not {version, negoTokens, pubKeyAuth}"
            auth = reqs[1]["nego"]
            if auth[:12] != b"NTLMSSP\x00\x03\x00\x00\x00": return "second token is not an NTLM AUTHENTICATE"
            for lab, p in pats:
                if p in auth: return "the %s occurs in the AUTHENTICATE token" % lab
                if p in cssp[1]: return "the %s occurs in the AUTHENTICATE TSRequest (wrapper / pubKeyAuth)" % lab
            pk = c2s.unseal(reqs[1]["pubKeyAuth"])
            if pk is None: return "pubKeyAuth does not unseal under the client-to-server keys of the exported session key"
            # (what the key proof and the AUTHENTICATE must satisfy is C01's / C15's business, not judged here)
        if len(cssp) == 3:
            if set(reqs[2]) != {"version", "authInfo"}: return "third TSRequest is not {version, authInfo}"
            for lab, p in pats:
                if p in cssp[2]: return "the %s occurs in the SEALED authInfo TSRequest" % lab
            pt = c2s.unseal(reqs[2]["authInfo"])
            if pt is None: return "authInfo does not unseal under the client-to-server keys (sequence number 1)"
            try:
                creds_sent = parse_ts_credentials(pt)
            except ValueError as e:
                return "the unsealed authInfo is not a TSCredentials / TSPasswordCreds: %s" % e
            # the mode table is about WHICH strings travel; either character set is accepted here (the CHALLENGE's UNICODE flag decides,
            # and the model/implementation diff pins the choice)
            def table(enc, hash_pw=False):
                if c["ram"] or c["blank"]: return (b"", b"", b"")
                if c["nthash"] is not None and not hash_pw: return (enc(c["dom"]), enc(c["user"]), b"")
                return (enc(c["dom"]), enc(c["user"]), enc(c["pw"]))
            e16, e8 = (lambda s: s.encode("utf-16-le")), (lambda s: s.encode("utf-8"))
            # hash mode is not spelled out by the property: the sealed structure may carry the configured password field or nothing
            # (the code sends nothing; the model/implementation diff pins that), never anything else
            acceptable = [table(e16), table(e8), table(e16, True), table(e8, True)]
            if creds_sent not in acceptable:
                want = table(e16)
                return "TSPasswordCreds = (%s, %s, %s), the mode (restricted=%d blank=%d hash=%d) says (%s, %s, %s) [UTF-16LE, or the same strings as UTF-8]" % (
                    creds_sent[0].hex() or "-", creds_sent[1].hex() or "-", creds_sent[2].hex() or "-", c["ram"], c["blank"], c["nthash"] is not None,
                    want[0].hex() or "-", want[1].hex() or "-", want[2].hex() or "-")
        if res == "ok" and len(cssp) != 3: return "connected over NLA without sending the three CredSSP messages"
    elif res == "ok" and c["nla"] and sel == 2:
        return "connected although HYBRID was selected and no CredSSP message was seen"
    # ---- RDP frames inside TLS: all well formed; the Client Info is the only one that may carry the password
    info = info_frame = None
    for k, fr in enumerate(frames):
        try:
            kind, f = S.client_frame(fr)
        except S.Bad as e:
            return "frame %d inside TLS rejected by the strict parser: %s" % (k, e)
        if kind == "client-info":
            if info is not None: return "two Client Info PDUs"
            info, info_frame = f, fr
        else:
            for lab, p in pats:
                if p in fr: return "the %s occurs in a %s frame" % (lab, kind)
    if res == "ok" and info is None: return "connected without a Client Info PDU"
    if info is not None:
        if cssp and len(cssp) != 3: return "Client Info sent although CredSSP did not complete"
        cp = lambda s: [ord(ch) for ch in s]
        want = ([], [], []) if c["ram"] else (cp(c["dom"]), cp(c["user"]), cp(c["pw"]))
        got = (list(info["domain"]), list(info["userName"]), list(info["password"]))
        # hash mode: the property does not say whether the separately configured password field travels; the code sends it
        lenient = c["nthash"] is not None and not c["ram"] and got == (want[0], want[1], [])
        if got != want and not lenient:
            return "Client Info carries (domain, user, password) = %r, the mode (restricted=%d) says %r" % (got, c["ram"], want)
        if bool(info["flags"] & 0x8) != bool(c["auto"]):
            return "INFO_AUTOLOGON is %s but auto_logon was %s" % ("set" if info["flags"] & 0x8 else "clear", "requested" if c["auto"] else "not requested")
        if info["flags"] & ~0x8 != 0x10153: return "Client Info flags %#x differ from the fixed set beyond INFO_AUTOLOGON" % info["flags"]
        # only the UTF-16 password is a field of the Client Info: neither its UTF-8 form nor any hash belongs there
        for lab, p in pats:
            if not lab.startswith("UTF-16") and p in info_frame: return "the %s occurs in the Client Info PDU" % lab
    # ---- what the scripted variant "should" lead to (an honest server accepted, an unproven / untrusted / refused server
    #      rejected) is NOT judged here: those are C03 / C01 / C02 statements.  C17 is judged by the searches and the mode
    #      table above on whatever the client DID write; the model/implementation diff pins the outcomes.
    return None

def classify(line, out):
    o = split_out(out)
    return "sec17:%s:raw%d:hs=%s:tls%d" % (o["res"], len(o["raw"]), o["hs"], len(o["tls"]))

def _cls(s):
    if s == "": return "e"
    m = max(ord(ch) for ch in s)
    return ("a" if m < 0x80 else "l" if m < 0x100 else "b" if m < 0x10000 else "s") + ("+" if len(s) > 64 else "")

def shape(line):
    c = cfg_of_line(line)
    return (c["nla"], c["ram"], c["blank"], c["auto"], c["nthash"] is not None, c["check"], c["ident"], _cls(c["dom"]), _cls(c["user"]), _cls(c["pw"]),
            len(c["script"].split("/")), c["cc"][-8:])

def nontrivial(line, out):
    o = split_out(out)
    return len(o["raw"]) > 0

# ------------------------------------------------------------------ the fixed examples of coq/SecretsExample.v (corpus/C17/examples.txt)
def example_cases():
    import random
    r = random.Random(1717)
    a = Case(r, nla=1, ram=0, blank=0, auto=1, jo="g", dom="域", user="Usér", pw="pä\U0001F600w0rd", name="rdp-rs")
    b = Case(r, nla=1, ram=1, blank=0, auto=0, jo="u", dom="DOM", user="admin", pw="", nthash=nlmp.nt_hash("s3crét"), name="rdp-rs", version=0x00080001, io=1007)
    return [a, b]
from ties import of as _tie_of; TIE_LAYOUTS, TIE_PINS, TIE_ENUMS = _tie_of("C17")   # static-tie lemmas (coq/Gen/Tie) this property depends on
