"""C13: inbound deframing exact under arbitrary fragmentation -- case generator and oracle.
Case line:  read <tpkt|x224> <nreads> <chunk,chunk,...>   (chunk = hex | @len:seed)
Outcome  :  one token per read (raw:<summ> | fp:<flags>:<summ> | err:<kind> | panic) then rest=<summ>."""
from common import *

GROUP = "framing"
MODEL_FILES = ["coq/Link.v", "coq/Tpkt.v"]
PROFILES = ["debug", "release"]
RULE = ("sequences of 1-6 slow/fast frames (payload lengths at every boundary of the three length forms, every action "
        "byte, reserved byte) cut into chunks by: one chunk, 1-byte dribble, a split at every header offset, random "
        "splits; plus declared lengths below the header size, truncated streams, trailing bytes; both x224 and tpkt "
        "entry points.  A case is non-trivial when at least one read returned a payload or a size error; distinct = "
        "distinct (frame-shape signature, chunking kind, outcome class).")
TRUSTED_BASE = ["Coq 8.16.1 kernel (vm_compute used for two finite byte-level sweeps in Sweep.v)",
                "hand-written model coq/Link.v + coq/Tpkt.v tied to /repo by this correspondence run",
                "extraction (ExtrOcamlBasic only) + ocaml/framing/driver.ml",
                "Rust harness/src/framing.rs (chunked adversarial Read)",
                "std::io::Read::read_exact contract (loop until full, 0 bytes = UnexpectedEof)"]
ASSUMPTIONS = ["the transport's read returns at most the next chunk; chunk boundaries are arbitrary but chunks are non-empty (an empty read is EOF)",
               "spec of framing = coq/RefFraming.v (T.123 TPKT, MS-RDPBCGR fast-path header)"]

def enc_slow(p, rsv=0):
    n = len(p) + 4
    return bytes([3, rsv, n >> 8, n & 255]) + p
def enc_fast(a, p, long):
    if long:
        n = len(p) + 3
        return bytes([a, 0x80 | (n >> 8), n & 255]) + p
    n = len(p) + 2
    return bytes([a, n]) + p

def exp_tok(kind, p, a=0):
    if kind == "slow": return "raw:" + summ(p)
    return "fp:%d:%s" % ((a >> 6) & 3, summ(p))

def chunkings(data, hdr_offsets, rng, kinds):
    out = []
    for k in kinds:
        if k == "one":
            out.append(("one", [data] if data else []))
        elif k == "dribble":
            out.append(("dribble", [data[i:i+1] for i in range(len(data))]))
        elif k == "hdr":
            for off in hdr_offsets:
                if 0 < off < len(data):
                    out.append(("hdr%d" % min(off, 9), [data[:off], data[off:]]))
        elif k == "random":
            cuts = sorted(set(rng.randrange(1, len(data)) for _ in range(rng.randrange(1, 8)))) if len(data) > 1 else []
            cs = []; prev = 0
            for c in cuts + [len(data)]:
                if c > prev: cs.append(data[prev:c]); prev = c
            out.append(("random", cs))
    return out

def chunk_tok(c):
    return hx(c)

def mk_case(layer, nreads, chunks):
    return "read %s %d %s" % (layer, nreads, ",".join(chunk_tok(c) for c in chunks) if chunks else ".")

def gen_cases(tier, rng):
    cases = []
    quick = tier == "quick"
    slow_lens = [0, 1, 2, 3, 4, 5, 123, 124, 125, 126, 127, 128, 255, 256, 1499, 1500, 1501, 3000]
    fast_short = [0, 1, 2, 60, 124, 125]
    fast_long = [0, 1, 2, 124, 125, 126, 127, 128, 253, 254, 1500, 4000]
    if not quick:
        slow_lens += [16379, 16380, 16381, 32763, 32764, 65530, 65531]
        fast_long += [16380, 16381, 32763, 32764]
    def frame(rng):
        k = rng.choice(["slow", "slow", "fs", "fl"])
        seed = rng.randrange(256)
        if k == "slow":
            p = fill(rng.choice(slow_lens), seed); return ("slow", p, 3, enc_slow(p, rng.choice([0, 0, 0, 255, 7])))
        a = rng.choice([x for x in range(256) if x != 3])
        if k == "fs":
            p = fill(rng.choice(fast_short), seed); return ("fast", p, a, enc_fast(a, p, False))
        p = fill(rng.choice(fast_long), seed); return ("fast", p, a, enc_fast(a, p, True))
    # 1. single frames, every boundary length x every chunking
    singles = []
    for n in slow_lens: singles.append(("slow", fill(n, n % 251), 3, enc_slow(fill(n, n % 251))))
    for n in fast_short: singles.append(("fast", fill(n, 5), 0, enc_fast(0, fill(n, 5), False)))
    for n in fast_long: singles.append(("fast", fill(n, 9), 0x80, enc_fast(0x80, fill(n, 9), True)))
    for a in range(256):
        if a != 3:
            singles.append(("fast", fill(3, a), a, enc_fast(a, fill(3, a), a % 2 == 0)))
    for (k, p, a, e) in singles:
        tail = b"\x03\x00" if len(e) % 3 == 0 else b""
        kinds = ["one", "hdr", "random"] + (["dribble"] if len(e) <= 600 else [])
        for (ck, cs) in chunkings(e + tail, [1, 2, 3, 4, 5], rng, kinds):
            exp = exp_tok(k, p, a) + " rest=" + summ(tail)
            cases.append((mk_case("tpkt", 1, cs), exp))
    # 2. sequences of frames
    nseq = 150 if quick else 3000
    for _ in range(nseq):
        fs = [frame(rng) for _ in range(rng.randrange(1, 7))]
        data = b"".join(f[3] for f in fs)
        tail = fill(rng.choice([0, 0, 1, 5]), 1)
        offs = []; o = 0
        for f in fs:
            offs += [o + 1, o + 2, o + 3, o + 4]; o += len(f[3])
        kinds = [rng.choice(["one", "random", "random", "hdr"])] + (["dribble"] if len(data) < 800 else [])
        for (ck, cs) in chunkings(data + tail, [rng.choice(offs)], rng, kinds):
            exp = " ".join(exp_tok(f[0], f[1], f[2]) for f in fs) + " rest=" + summ(tail)
            cases.append((mk_case("tpkt", len(fs), cs), exp))
    # 3. x224 layer: slow frames carrying 02 f0 80 + p; fast-path passes through
    for n in [0, 1, 2, 50, 1000]:
        p = fill(n, 3)
        e = enc_slow(b"\x02\xf0\x80" + p) + enc_fast(0x40, p, False if n < 100 else True)
        for (ck, cs) in chunkings(e, [1, 2, 3, 4, 5, 6, 7], rng, ["one", "hdr", "random"]):
            cases.append((mk_case("x224", 2, cs), "raw:%s fp:1:%s rest=%s" % (summ(p), summ(p), summ(b""))))
    for hdr in [b"\x02\xf0\x81", b"\x02\xf0", b"", b"\x00\x00\x80\x01"]:
        cases.append((mk_case("x224", 1, [enc_slow(hdr)]), None))
    # 4. declared length shorter than the header: rejected, exactly the header consumed
    for size in range(0, 4):
        for rest in [b"", b"\x03\x00\x00\x05\x09"]:
            e = bytes([3, 0, 0, size]) + rest
            for (ck, cs) in chunkings(e, [1, 2, 3], rng, ["one", "dribble", "hdr"]):
                cases.append((mk_case("tpkt", 1, cs), "err:InvalidSize rest=" + summ(rest)))
    for ln in range(0, 2):
        for rest in [b"", b"\x00\x03\x01"]:
            cases.append((mk_case("tpkt", 1, [bytes([0, ln]) + rest]), "err:InvalidSize rest=" + summ(rest)))
    for ln in range(0, 3):
        for rest in [b"", b"\x00\x03\x01"]:
            cases.append((mk_case("tpkt", 1, [bytes([0x44, 0x80, ln]) + rest]), "err:InvalidSize rest=" + summ(rest)))
    # 5. all declared TPKT lengths (thorough: every one of the 65536; quick: boundaries), stream complete up to 2k, truncated above
    sizes = BOUND16 + [rng.randrange(65536) for _ in range(40)] if quick else range(65536)
    for size in sizes:
        if size < 4: continue
        n = size - 4
        if n <= 2048 or size % 4099 == 0 or size >= 65530:
            p = fill(n, size % 256)
            cs = [bytes([3, 0, size >> 8, size & 255])] + ([p[:n // 2], p[n // 2:]] if n > 1 else [p] if n else []) + [b"\x07"]
            cases.append((mk_case("tpkt", 1, cs), "raw:%s rest=%s" % (summ(p), summ(b"\x07"))))
        else:
            # truncated: the declared body never arrives completely
            cases.append((mk_case("tpkt", 1, [bytes([3, 0, size >> 8, size & 255]), b"\x01\x02\x03"]), "err:Io rest=" + summ(b"")))
    # all fast-path lengths in both forms (short: 0..127, long: boundaries / all up to 2k)
    for ln in range(128):
        p = fill(max(0, ln - 2), ln)
        cases.append((mk_case("tpkt", 1, [bytes([0xc0, ln]) + p + b"\xaa"]),
                      ("fp:3:%s rest=%s" % (summ(p), summ(b"\xaa"))) if ln >= 2 else "err:InvalidSize rest=" + summ(p + b"\xaa")))
    # every power-of-two boundary of the 15-bit long-form length, in both tiers
    pow2 = sorted(set(v for k in range(8, 15) for v in ((1 << k) - 1, 1 << k, (1 << k) + 1, (1 << k) + 2, (1 << k) + 3))) + [0x7ffe, 0x7fff]
    longs = (list(range(0, 300)) + pow2) if quick else list(range(0, 2100)) + pow2
    for ln in longs:
        p = fill(max(0, ln - 3), ln % 256)
        cases.append((mk_case("tpkt", 1, [bytes([0x00, 0x80 | (ln >> 8)]), bytes([ln & 255]) + p + b"\xaa"]),
                      ("fp:0:%s rest=%s" % (summ(p), summ(b"\xaa"))) if ln >= 3 else "err:InvalidSize rest=" + summ(p + b"\xaa")))
    # 6. truncation at every point of a two-frame stream; empty stream; empty chunk (EOF) in the middle
    two = enc_slow(fill(5, 1)) + enc_fast(0, fill(4, 2), True)
    for cut in range(len(two)):
        cases.append((mk_case("tpkt", 2, [two[:cut]] if cut else []), None))
    cases.append((mk_case("tpkt", 1, [b"\x03\x00", b"", b"\x00\x05\x01"]), None))
    # 7. random garbage
    for _ in range(100 if quick else 5000):
        g = bytes(rng.randrange(256) for _ in range(rng.randrange(0, 12)))
        cases.append((mk_case(rng.choice(["tpkt", "x224"]), 2, [g]), None))
    return cases

def classify(line, out):
    toks = out.split()
    kinds = []
    for t in toks:
        if t.startswith("raw:"): kinds.append("raw")
        elif t.startswith("fp:"): kinds.append("fp")
        elif t.startswith("err:"): kinds.append(t)
        elif t in ("panic", "spin", "crashed"): kinds.append(t)
    return ",".join(sorted(set(kinds))) or "none"

def shape(line):
    toks = line.split()
    chunks = toks[3].split(",")
    return (toks[1], toks[2], min(len(chunks), 9), min(len(toks[3]) // 64, 40))

def nontrivial(line, out):
    return ("raw:" in out or "fp:" in out or "err:InvalidSize" in out)

import re as _re
def _nk(s): return _re.sub(r"err:\w+", "err", s)

def oracle(line, out, expect):
    """independent judgement of the implementation's outcome"""
    if "panic" in out.split() or "crashed" in out or "spin" in out.split():
        return "deframing crashed: " + out
    # the property demands "an error", not a particular error kind: kinds are compared only by the correspondence
    if expect is not None and _nk(out) != _nk(expect):
        return "expected `%s` (reference framing), implementation returned `%s`" % (expect, out)
    return None
from ties import of as _tie_of; TIE_LAYOUTS, TIE_PINS, TIE_ENUMS = _tie_of("C13")   # static-tie lemmas (coq/Gen/Tie) this property depends on
