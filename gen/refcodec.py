"""Reference codecs for the C18 oracle, written from the standards and independent of both the Coq model
and the crate: ITU-T X.691 (PER, aligned) as T.124/T.125 use it, X.690 (DER), T.124 + MS-RDPBCGR 2.2.1.4
(conference create response and server data blocks)."""

# ------------------------------------------------------------------ X.691
def per_length(n):
    """length determinant: one octet below 128, else two octets 1nnnnnnn nnnnnnnn (15 bits as every RDP stack uses it)"""
    if n < 0x80: return bytes([n])
    if n < 0x8000: return bytes([0x80 | (n >> 8), n & 0xff])
    return None

def per_integer(n):
    """length octet + non-negative binary integer on the smallest of 1, 2, 4 octets"""
    if n <= 0xff: return bytes([1, n])
    if n <= 0xffff: return bytes([2]) + n.to_bytes(2, "big")
    return bytes([4]) + n.to_bytes(4, "big")

def per_oid(arcs):
    """six arcs; X.690 8.19: first octet 40*arc1+arc2, then one base-128 group per arc; the crate's form has
    exactly five content octets, so every later arc must be below 128.  None = no such encoding."""
    a0, a1 = arcs[0], arcs[1]
    if a0 > 2 or a1 > 39: return None
    if any(a > 127 for a in arcs[2:]): return None
    body = bytes([40 * a0 + a1] + list(arcs[2:]))
    return bytes([len(body)]) + body

def per_octet_string(s, lower):
    if len(s) < lower: return None
    l = per_length(len(s) - lower)
    return None if l is None else l + bytes(s)

def per_numeric_string(s, lower):
    """alphabet 0-9: four bits per character (its value), first character in the high nibble, zero padded"""
    if len(s) < lower or any(c < 0x30 or c > 0x39 for c in s): return None
    l = per_length(len(s) - lower)
    if l is None: return None
    out = bytearray()
    for i in range(0, len(s), 2):
        hi = s[i] - 0x30
        lo = s[i + 1] - 0x30 if i + 1 < len(s) else 0
        out.append(hi << 4 | lo)
    return l + bytes(out)

# ------------------------------------------------------------------ X.690 DER
CLASS = {"U": 0, "A": 1, "C": 2, "P": 3}

def der_ident(cls, constructed, tag):
    first = (CLASS[cls] << 6) | (0x20 if constructed else 0)
    if tag < 31: return bytes([first | tag])
    groups = []
    while True:
        groups.append(tag & 0x7f); tag >>= 7
        if tag == 0: break
    groups.reverse()
    return bytes([first | 31] + [g | 0x80 for g in groups[:-1]] + [groups[-1]])

def der_len(n):
    if n < 128: return bytes([n])
    b = n.to_bytes((n.bit_length() + 7) // 8, "big")
    return bytes([0x80 | len(b)]) + b

def der_int_content(n):
    """two's complement, minimal, non-negative n"""
    return n.to_bytes(n.bit_length() // 8 + 1, "big")

def der_encode(v, implicit=None):
    """v = ("int", n) | ("enum", n) | ("bool", b) | ("oct", bytes) | ("seq", [v..]) | ("seqof", [v..])
           | ("exp", cls, tag, v) | ("imp", cls, tag, v)"""
    k = v[0]
    if k == "exp":
        inner = der_encode(v[3])
        cls, tag = implicit if implicit else (v[1], v[2])
        return der_ident(cls, True, tag) + der_len(len(inner)) + inner
    if k == "imp":
        return der_encode(v[3], implicit if implicit else (v[1], v[2]))
    if k == "int": cons, utag, content = False, 2, der_int_content(v[1])
    elif k == "enum": cons, utag, content = False, 10, der_int_content(v[1])
    elif k == "bool": cons, utag, content = False, 1, (b"\xff" if v[1] else b"\x00")
    elif k == "oct": cons, utag, content = False, 4, bytes(v[1])
    elif k in ("seq", "seqof"): cons, utag, content = True, 16, b"".join(der_encode(x) for x in v[1])
    else: raise ValueError(k)
    cls, tag = implicit if implicit else ("U", utag)
    return der_ident(cls, cons, tag) + der_len(len(content)) + content

def der_text(v):
    """the value description token shared with both drivers"""
    k = v[0]
    if k == "int": return "i%d" % v[1]
    if k == "enum": return "e%d" % v[1]
    if k == "bool": return "b%d" % (1 if v[1] else 0)
    if k == "oct": return "o" + (bytes(v[1]).hex() or "-")
    if k == "seq": return "s(%s)" % ",".join(der_text(x) for x in v[1])
    if k == "seqof": return "q(%s)" % ",".join(der_text(x) for x in v[1])
    if k == "exp": return "x%s%d(%s)" % (v[1], v[2], der_text(v[3]))
    if k == "imp": return "m%s%d(%s)" % (v[1], v[2], der_text(v[3]))
    raise ValueError(k)

def domain_parameters(a, b, c, d, e, f, g, h):
    return ("seq", [("int", x) for x in (a, b, c, d, e, f, g, h)])

def connect_initial(user_data):
    return ("imp", "A", 101, ("seq", [("oct", b"\x01"), ("oct", b"\x01"), ("bool", True),
            domain_parameters(34, 2, 0, 1, 0, 1, 0xffff, 2), domain_parameters(1, 1, 1, 1, 0, 1, 0x420, 2),
            domain_parameters(0xffff, 0xfc17, 0xffff, 1, 0, 1, 0xffff, 2), ("oct", user_data)]))

def connect_response(user_data, result=0, connect_id=0, dp=(22, 3, 0, 1, 0, 1, 0xfff8, 2)):
    return ("imp", "A", 102, ("seq", [("enum", result), ("int", connect_id), domain_parameters(*dp), ("oct", user_data)]))

def ts_request(nego):
    return ("seq", [("exp", "C", 0, ("int", 2)), ("exp", "C", 1, ("seqof", [("seq", [("exp", "C", 0, ("oct", nego))])]))])
def ts_authenticate(nego, pubkey):
    return ("seq", [("exp", "C", 0, ("int", 2)), ("exp", "C", 1, ("seqof", [("seq", [("exp", "C", 0, ("oct", nego))])])),
                    ("exp", "C", 3, ("oct", pubkey))])
def ts_validate(pubkey, version=2):
    return ("seq", [("exp", "C", 0, ("int", version)), ("exp", "C", 3, ("oct", pubkey))])
def ts_challenge(tokens, version=2):
    return ("seq", [("exp", "C", 0, ("int", version)), ("exp", "C", 1, ("seqof", [("seq", [("exp", "C", 0, ("oct", t))]) for t in tokens]))])
def ts_password_creds(dom, user, pw):
    return ("seq", [("exp", "C", 0, ("oct", dom)), ("exp", "C", 1, ("oct", user)), ("exp", "C", 2, ("oct", pw))])
def ts_credentials(dom, user, pw):
    return ("seq", [("exp", "C", 0, ("int", 1)), ("exp", "C", 1, ("oct", der_encode(ts_password_creds(dom, user, pw))))])
def ts_authinfo(info):
    return ("seq", [("exp", "C", 0, ("int", 2)), ("exp", "C", 2, ("oct", info))])

# ------------------------------------------------------------------ T.124 / MS-RDPBCGR GCC
def gcc_conference_create_request(user_data):
    """MS-RDPBCGR 2.2.1.3: the fixed T.124 ConnectData / ConferenceCreateRequest preamble around the user data"""
    out = bytearray()
    out += b"\x00"                                   # ConnectData::Key: select object (0) of type OBJECT_IDENTIFIER
    out += b"\x05\x00\x14\x7c\x00\x01"               # {itu-t(0) recommendation(0) t(20) t124(124) version(0) 1}
    out += per_length(len(user_data) + 14)           # ConnectData::connectPDU length
    out += b"\x00\x08"                               # ConnectGCCPDU choice conferenceCreateRequest, selection: userData present
    out += b"\x00\x10"                               # conferenceName::numeric "1" (length 1-1, digit 1 in the high nibble)
    out += b"\x00"                                   # padding
    out += b"\x01"                                   # UserData::numberOfSets 1
    out += b"\xc0"                                   # h221NonStandard present
    out += b"\x00" + b"Duca"                         # key: octet string of 4 (minimum 4)
    out += per_length(len(user_data)) + bytes(user_data)
    return bytes(out)

def gcc_block(btype, body):
    return btype.to_bytes(2, "little") + (len(body) + 4).to_bytes(2, "little") + bytes(body)

def sc_core(version, requested=None, flags=None):
    b = version.to_bytes(4, "little")
    if requested is not None:
        b += requested.to_bytes(4, "little")
        if flags is not None: b += flags.to_bytes(4, "little")
    return gcc_block(0x0c01, b)
def sc_security(method=0, level=0):
    return gcc_block(0x0c02, method.to_bytes(4, "little") + level.to_bytes(4, "little"))
def sc_net(io_channel, ids, pad=True):
    b = io_channel.to_bytes(2, "little") + len(ids).to_bytes(2, "little") + b"".join(i.to_bytes(2, "little") for i in ids)
    if pad and len(ids) % 2: b += b"\x00\x00"
    return gcc_block(0x0c03, b)

def gcc_conference_create_response(blocks, node_id=31219, tag=1, result=0):
    """MS-RDPBCGR 2.2.1.4: T.124 ConferenceCreateResponse carrying the server data blocks"""
    tail = bytearray()
    tail += b"\x14"                                   # ConnectGCCPDU choice conferenceCreateResponse
    tail += (node_id - 1001).to_bytes(2, "big")       # nodeID (constrained 1001..65536)
    tail += per_integer(tag)                          # tag
    tail += bytes([result])                           # result enumerated
    tail += b"\x01"                                   # numberOfSets
    tail += b"\xc0"                                   # h221NonStandard
    tail += b"\x00" + b"McDn"
    tail += per_length(len(blocks)) + bytes(blocks)
    return b"\x00" + b"\x05\x00\x14\x7c\x00\x01" + per_length(len(tail)) + bytes(tail)

# ------------------------------------------------------------------ X.691 DECODERS (the inverse direction of C18)
# Each returns (value, rest) or None, written from the standard like the encoders above.  A decoder accepts every
# encoding the standard allows a DEcoder to meet: in particular the two-octet length determinant for a small value
# (X.691 10.9 binds the encoder); it is strict on content (digit alphabet, zero padding bits, OID subidentifiers).
def per_dec_length(b):
    if len(b) < 1: return None
    if b[0] < 0x80: return b[0], b[1:]
    if len(b) < 2: return None
    return ((b[0] & 0x7f) << 8) | b[1], b[2:]

def per_dec_integer(b):
    r = per_dec_length(b)
    if r is None: return None
    l, rest = r
    if l not in (1, 2, 4) or len(rest) < l: return None
    return int.from_bytes(rest[:l], "big"), rest[l:]

def per_dec_integer_16(lower, b):
    if len(b) < 2: return None
    v = lower + int.from_bytes(b[:2], "big")
    return None if v > 0xffff else (v, b[2:])

def per_dec_oid(b):
    """arcs of an object identifier (X.690 8.19): first octet 40*arc1+arc2 (arc1 <= 2), then base-128 groups"""
    r = per_dec_length(b)
    if r is None: return None
    l, rest = r
    if l < 1 or len(rest) < l: return None
    c, rest = rest[:l], rest[l:]
    if c[0] >= 0x80: return None                      # only the one-octet first subidentifier, as the encoder above
    a0 = 0 if c[0] < 40 else 1 if c[0] < 80 else 2
    arcs = [a0, c[0] - 40 * a0]
    acc = None
    for x in c[1:]:
        if acc is None and x == 0x80: return None     # 8.19.2: no leading 0x80
        acc = (acc or 0) * 128 + (x & 0x7f)
        if x < 0x80: arcs.append(acc); acc = None
    if acc is not None: return None
    return arcs, rest

def per_dec_octet_string(lower, b):
    r = per_dec_length(b)
    if r is None: return None
    l, rest = r
    n = l + lower
    return None if len(rest) < n else (bytes(rest[:n]), rest[n:])

def per_dec_numeric_string(lower, b):
    r = per_dec_length(b)
    if r is None: return None
    l, rest = r
    n = l + lower
    k = (n + 1) // 2
    if len(rest) < k: return None
    out = bytearray()
    for i in range(n):
        x = rest[i // 2]
        d = (x >> 4) if i % 2 == 0 else (x & 15)
        if d > 9: return None
        out.append(0x30 + d)
    if n % 2 and rest[k - 1] & 15: return None        # padding bits are zero
    return bytes(out), rest[k:]

# ------------------------------------------------------------------ BER variants of a DER encoding (for the lenient reader)
def ber_long_len(n, extra=1):
    """a non-minimal long-form definite length (valid BER, not DER)"""
    b = n.to_bytes(max(1, (n.bit_length() + 7) // 8) + extra, "big") if extra else n.to_bytes(max(1, (n.bit_length() + 7) // 8), "big")
    return bytes([0x80 | len(b)]) + b
