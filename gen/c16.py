"""C16: NTLM session security seals per MS-NLMP, round-trips, rejects tampering -- generator and oracle.
Case lines (see harness/src/ntlm.rs):
  md4|md5 <data> | hmac <key> <data> | rc4k <key> <data> | signkey|sealkey <K> <c|s> | mac <rc4key> <signkey> <seq> <data>
  sess <K> <step>...                      context from Ntlm::build_security_interface() under exported session key K
  raw <ek> <dk> <sk> <vk> <seq0> <step>...   NTLMv2SecurityInterface::new(Rc4::new(ek), Rc4::new(dk), sk, vk), seq_num := seq0
       step = w:<msg> (gss_wrapex) | u:<token> (gss_unwrapex); outcome per step  w=<hex> | u=ok:<hex> | u=err:<Kind> | panic
  tamper <K> <idx> <lo> <hi> <token>...   every bit lo..hi of token[idx] flipped (one at a time) after the honest prefix;
       outcome: pre=ok n=<flips> ok=.. Io=.. InvalidConst=.. InvalidChecksum=.. other=.. panic=.. accepted=<bits|->
The oracle is the independent python MS-NLMP implementation of gen/nlmp.py."""
from common import *
import nlmp, struct

GROUP = "ntlm"
MODEL_FILES = ["coq/Rc4.v", "coq/Md5.v", "coq/Md4.v", "coq/Hmac.v", "coq/NtlmSeal.v"]
PROFILES = ["debug", "release"]
RULE = ("random exported session keys (16 bytes, and 0/1/5/55/56/64/65/100 bytes), sessions of 0..8 messages with lengths from "
        "{0,1,15,16,17,255,4096} in both directions and interleaved; every wrap compared byte for byte with an independent "
        "python MS-NLMP SEAL/MAC, every peer-sealed token must unwrap to its plaintext; for sealed tokens EVERY single-bit flip "
        "(exhaustively for tokens up to 255+16 bytes, all header bits + sampled ciphertext bits for 4096-byte messages in the "
        "quick tier), every truncation, extensions, replays and reordering must be rejected with an error; contexts with explicit "
        "keys of boundary lengths (0,1,256,257) and sequence numbers at the 32-bit wrap; the primitives (MD4, MD5, HMAC-MD5, "
        "RC4, SIGNKEY, SEALKEY, MAC) against python.  A case is non-trivial when a token was produced, accepted or rejected; "
        "distinct = distinct (operation, message-length signature, outcome class).")
TRUSTED_BASE = ["Coq 8.16.1 kernel (vm_compute used for the published test vectors in CryptoVectors.v and the concrete examples)",
                "hand-written model coq/NtlmSeal.v over coq/Rc4.v Md5.v Md4.v Hmac.v, tied to /repo by this correspondence run",
                "extraction (ExtrOcamlBasic only) + ocaml/ntlm/driver.ml",
                "Rust harness/src/ntlm.rs and the cfg(rdp_rs_verif) hooks ntlm::verif::*, verif_set_exported_session_key, verif_set_seq_num",
                "python oracle gen/nlmp.py (hashlib MD5, stdlib hmac, hand-written RC4/MD4)",
                "crates md-5, md4, hmac: modelled (Md5.v, Md4.v, Hmac.v), validated on RFC vectors and sampled by this run"]
ASSUMPTIONS = ["theorems are proved for ANY hash functions whose digests are 16 bytes (md5, hmac are Section variables), and instantiated with the concrete Gallina MD5/HMAC-MD5",
               "rejection of an altered sequence number or ciphertext is proved under the explicit hypothesis that the 8-byte HMAC-MD5 prefixes of the two signed strings differ (cryptography, not logic); gss_unwrapex does NOT compare SeqNum with a counter of its own",
               "spec of sealing/signing = coq/RefNlmpSeal.v (MS-NLMP 3.4.3-3.4.5, extended session security, key exchange, 128-bit)"]

LENS = [0, 1, 15, 16, 17, 255, 4096]

def rbytes(rng, n): return bytes(rng.randrange(256) for _ in range(n))


def gen_msg(rng, n):
    if n >= 255 and rng.random() < 0.5:
        seed = rng.randrange(256)
        return fill(n, seed), "@%d:%d" % (n, seed)
    m = rbytes(rng, n)
    return m, hx(m)

# ---------------------------------------------------------------- expectations
# expect = ("exact", line) | ("steps", [exact string | "REJECT" | "ANY"]) | ("tamper", nflips) | None

def sess_case(k, steps):
    """steps: list of ("w", msg, msgtok) | ("u", token, expectation).  Returns (line, expect) with the `w` outcomes
    computed by the python reference for the client->server direction."""
    c2s, _ = nlmp.session(k)
    toks = []; exp = []
    for s in steps:
        if s[0] == "w":
            toks.append("w:" + s[2]); exp.append("w=" + hx(c2s.seal(s[1])))
        else:
            toks.append("u:" + hx(s[1])); exp.append(s[2])
    return "sess %s %s" % (hx(k), " ".join(toks)), ("steps", exp)

def flips_cases(k, tokens, idx, bits, per_line):
    """tamper lines covering the given sorted bit list of tokens[idx], in contiguous runs of at most per_line"""
    out = []
    runs = []
    for b in bits:
        if runs and runs[-1][1] == b and runs[-1][1] - runs[-1][0] < per_line: runs[-1][1] = b + 1
        else: runs.append([b, b + 1])
    for lo, hi in runs:
        out.append(("tamper %s %d %d %d %s" % (hx(k), idx, lo, hi, " ".join(hx(t) for t in tokens[:idx + 1])), ("tamper", hi - lo)))
    return out

def gen_cases(tier, rng):
    quick = tier == "quick"
    cases = []
    # ---- 1. primitives against python
    plens = [0, 1, 3, 8, 16, 55, 56, 57, 63, 64, 65, 119, 120, 128, 200] + ([] if quick else [447, 448, 1000, 4096])
    for n in plens:
        d = rbytes(rng, n)
        cases.append(("md5 " + hx(d), ("exact", "ok " + nlmp.md5(d).hex())))
        cases.append(("md4 " + hx(d), ("exact", "ok " + nlmp.md4(d).hex())))
        for kl in ([16] if quick and n not in (0, 64) else [0, 1, 16, 63, 64, 65, 100]):
            key = rbytes(rng, kl)
            cases.append(("hmac %s %s" % (hx(key), hx(d)), ("exact", "ok " + nlmp.hmac_md5(key, d).hex())))
    for kl in [1, 2, 5, 16, 255, 256]:
        key = rbytes(rng, kl); d = rbytes(rng, rng.choice([0, 1, 16, 300]))
        cases.append(("rc4k %s %s" % (hx(key), hx(d)), ("exact", "ok " + hx(nlmp.RC4(key).crypt(d)))))
    for kl in [0, 257]:
        cases.append(("rc4k %s %s" % (hx(rbytes(rng, kl)), "0102"), ("exact", "panic")))     # Rc4::new asserts 1 <= len <= 256
    for kl in [0, 1, 16, 16, 40]:
        k = rbytes(rng, kl)
        for w, who in (("c", "client"), ("s", "server")):
            cases.append(("signkey %s %s" % (hx(k), w), ("exact", "ok " + nlmp.signkey(k, who).hex())))
            cases.append(("sealkey %s %s" % (hx(k), w), ("exact", "ok " + nlmp.sealkey(k, who).hex())))
    for _ in range(10 if quick else 100):
        rk = rbytes(rng, rng.choice([1, 16])); sk = rbytes(rng, rng.choice([0, 16, 70])); d = rbytes(rng, rng.choice([0, 1, 20]))
        seq = rng.choice([0, 1, 255, 256, 65536, 0x7fffffff, 0xffffffff, rng.randrange(1 << 32)])
        cases.append(("mac %s %s %d %s" % (hx(rk), hx(sk), seq, hx(d)), ("exact", "ok " + nlmp.Dir(rk, sk, seq).mac(d).hex())))

    # ---- 2. sessions: both directions, interleaved, state carried
    def rand_key():
        return rbytes(rng, rng.choice([16] * 8 + [0, 1, 5, 55, 56, 64, 65, 100]))
    nsess = 120 if quick else 1500
    for si in range(nsess):
        k = rand_key()
        n = rng.randrange(0, 9)
        _, s2c = nlmp.session(k)
        steps = []
        for _ in range(n):
            ln = rng.choice(LENS if (not quick or si % 4 == 0) else LENS[:-1])
            m, mt = gen_msg(rng, ln)
            if rng.random() < 0.5: steps.append(("w", m, mt))
            else: steps.append(("u", s2c.seal(m), "u=ok:" + hx(m)))
        cases.append(sess_case(k, steps))
    # every length, alone and repeated, each direction (stream continuity across equal and unequal lengths)
    for ln in LENS + [4097] + ([] if quick else [20, 51, 52, 59, 60, 61, 65535, 65536, 70001]):
        k = rbytes(rng, 16)
        _, s2c = nlmp.session(k)
        ms = [gen_msg(rng, ln) for _ in range(3)]
        cases.append(sess_case(k, [("w", m, t) for m, t in ms]))
        cases.append(sess_case(k, [("u", s2c.seal(m), "u=ok:" + hx(m)) for m, t in ms]))

    # ---- 3. explicit keys: boundary key lengths, sequence numbers at the 32-bit wrap
    for seq0 in [0, 1, 0xfffffffd, 0xfffffffe, 0xffffffff]:
        ek, dk, sk, vk = rbytes(rng, 16), rbytes(rng, 16), rbytes(rng, 16), rbytes(rng, 16)
        d = nlmp.Dir(ek, sk, seq0)
        ms = [rbytes(rng, rng.choice([0, 1, 17])) for _ in range(4)]
        cases.append(("raw %s %s %s %s %d %s" % (hx(ek), hx(dk), hx(sk), hx(vk), seq0, " ".join("w:" + hx(m) for m in ms)),
                      ("steps", ["w=" + hx(d.seal(m)) for m in ms])))
        # the peer may number its messages from anywhere (the client has no receive counter): honest tokens are accepted
        p = nlmp.Dir(dk, vk, seq0)
        cases.append(("raw %s %s %s %s 0 %s" % (hx(ek), hx(dk), hx(sk), hx(vk), " ".join("u:" + hx(p.seal(m)) for m in ms)),
                      ("steps", ["u=ok:" + hx(m) for m in ms])))
    for (el, dl) in [(1, 256), (256, 1), (0, 16), (16, 0), (257, 16), (16, 257), (5, 7)]:
        ek, dk, sk, vk = rbytes(rng, el), rbytes(rng, dl), rbytes(rng, rng.choice([0, 16, 64, 65])), rbytes(rng, 16)
        m = rbytes(rng, 9)
        if 1 <= el <= 256 and 1 <= dl <= 256:
            exp = ("steps", ["w=" + hx(nlmp.Dir(ek, sk).seal(m)), "u=ok:" + hx(m)])
            line = "raw %s %s %s %s 0 w:%s u:%s" % (hx(ek), hx(dk), hx(sk), hx(vk), hx(m), hx(nlmp.Dir(dk, vk).seal(m)))
        else:
            exp = ("exact", "panic")           # documented assert of Rc4::new, outside the property (keys are MD5 digests)
            line = "raw %s %s %s %s 0 w:%s" % (hx(ek), hx(dk), hx(sk), hx(vk), hx(m))
        cases.append((line, exp))

    # ---- 4. tampering: every single-bit flip
    def sealed_session(lens):
        k = rbytes(rng, 16)
        _, s2c = nlmp.session(k)
        return k, [s2c.seal(rbytes(rng, ln)) for ln in lens]
    flip_sessions = [[0, 1, 15], [16, 17, 1], [1, 0, 16, 15]] if quick else \
                    [[0, 1, 15], [16, 17, 1], [1, 0, 16, 15], [17, 17, 17, 0], [255, 1], [15, 255, 16], [0, 0, 0, 0, 0, 1]]
    for lens in flip_sessions:
        k, toks = sealed_session(lens)
        for idx in range(len(toks)):
            cases += flips_cases(k, toks, idx, list(range(8 * len(toks[idx]))), 512)
    # a 255-byte message (second of its session): all bits
    k, toks = sealed_session([17, 255])
    cases += flips_cases(k, toks, 1, list(range(8 * len(toks[1]))), 256)
    # 4096-byte messages: quick = the whole 16-byte signature + first/last ciphertext bytes + sampled bits; thorough = all
    for rep in range(1 if quick else 2):
        k, toks = sealed_session([1, 4096] if rep == 0 else [4096])
        idx = len(toks) - 1
        nb = 8 * len(toks[idx])
        if quick:
            bits = sorted(set(list(range(0, 128 + 16)) + list(range(nb - 16, nb)) + [rng.randrange(128, nb) for _ in range(40)]))
        else:
            bits = list(range(nb))
        cases += flips_cases(k, toks, idx, bits, 48)

    # ---- 5. truncations, extensions, replay, reordering, cross-direction reflection
    for lens in ([[17, 1], [0]] if quick else [[17, 1], [0], [255], [16, 15, 17]]):
        k, toks = sealed_session(lens)
        for idx in range(len(toks)):
            pre = [("u", t, "ANY") for t in toks[:idx]]
            t = toks[idx]
            cuts = range(len(t)) if len(t) <= 64 else list(range(0, 24)) + [len(t) // 2, len(t) - 2, len(t) - 1]
            for cut in cuts:
                cases.append(sess_case(k, pre + [("u", t[:cut], "REJECT")]))
            for ext in (b"\x00", b"\xff", rbytes(rng, 2), rbytes(rng, 16), rbytes(rng, 100)):
                cases.append(sess_case(k, pre + [("u", t + ext, "REJECT")]))
            # a rejected parse (Io / InvalidConst) leaves the context intact: the honest token is still accepted afterwards
            cases.append(sess_case(k, pre + [("u", t[:7], "REJECT"), ("u", b"\x02" + t[1:], "REJECT"), ("u", t, "ANY")]))
    for _ in range(6 if quick else 60):
        k, toks = sealed_session([rng.choice(LENS[:6]) for _ in range(3)])
        # replay of the first token, tokens out of order
        cases.append(sess_case(k, [("u", toks[0], "ANY"), ("u", toks[0], "REJECT")]))
        cases.append(sess_case(k, [("u", toks[1], "REJECT")]))
        cases.append(sess_case(k, [("u", toks[0], "ANY"), ("u", toks[2], "REJECT")]))
        # reflection: what the client itself sealed is not acceptable as input
        c2s, _ = nlmp.session(k)
        cases.append(sess_case(k, [("u", c2s.seal(b"reflect"), "REJECT")]))
        # a token sealed under another session key
        k2 = rbytes(rng, 16)
        cases.append(sess_case(k, [("u", nlmp.session(k2)[1].seal(b"other key"), "REJECT")]))
        # whole bytes replaced / random garbage of the right shape
        g = bytearray(toks[0]); pos = rng.randrange(len(g)); g[pos] = (g[pos] + 1 + rng.randrange(255)) & 255
        cases.append(sess_case(k, [("u", bytes(g), "REJECT")]))
        cases.append(sess_case(k, [("u", b"\x01\x00\x00\x00" + rbytes(rng, 12 + rng.randrange(20)), "REJECT")]))
    return cases

def classify(line, out):
    op = line.split()[0]
    if op in ("sess", "raw"):
        kinds = set()
        for t in out.split():
            if t.startswith("w="): kinds.add("wrapped")
            elif t.startswith("u=ok:"): kinds.add("accepted")
            elif t.startswith("u=err:"): kinds.add(t[2:])
            else: kinds.add(t)
        return op + ":" + ",".join(sorted(kinds))
    if op == "tamper":
        return "tamper:" + ",".join(t.split("=")[0] for t in out.split()[2:8] if not t.endswith("=0"))
    return op + ":" + out.split()[0]

def shape(line):
    t = line.split()
    op = t[0]
    if op in ("sess", "raw"):
        steps = t[2:] if op == "sess" else t[6:]
        sig = []
        for s in steps:
            a = s[2:]
            n = int(a[1:].split(":")[0]) if a.startswith("@") else (0 if a == "-" else len(a) // 2)
            sig.append(s[0] + str(n))
        return (op, len(t[1]) // 2, tuple(sig))
    if op == "tamper":
        return (op, t[2], int(t[3]) // 128, len(t[-1]) // 2)
    return (op,) + tuple(min(len(x) // 2, 70) for x in t[1:])

def nontrivial(line, out):
    return ("w=" in out or "u=" in out or "InvalidC" in out or out.startswith("ok "))

def oracle(line, out_full, expect):
    out = out_full.split(" #")[0]
    if expect is not None and expect[0] == "exact":
        return None if out == expect[1] else "expected `%s` (python MS-NLMP reference), implementation returned `%s`" % (expect[1][:200], out[:200])
    if "panic" in out.split() or "crashed" in out or "spin" in out.split():
        return "security context crashed: " + out[:200]
    if expect is None: return None
    if expect[0] == "steps":
        got = out.split() if out != "none" else []
        if len(got) != len(expect[1]):
            return "expected %d step outcomes, got %d: %s" % (len(expect[1]), len(got), out[:200])
        for i, (g, e) in enumerate(zip(got, expect[1])):
            if e == "ANY": continue
            if e == "REJECT":
                if not g.startswith("u=err:"):
                    return "step %d: an altered / foreign token was not rejected with an error: %s" % (i, g[:120])
            elif g != e:
                what = "sealed bytes differ from MS-NLMP SEAL/MAC" if e.startswith("w=") else "a token sealed by a conforming peer did not unwrap to its plaintext"
                return "step %d: %s: expected %s got %s" % (i, what, e[:120], g[:120])
        return None
    if expect[0] == "tamper":
        f = dict(x.split("=") for x in out.split())
        if f.get("pre") != "ok": return "the honest tokens before the altered one were not accepted: " + out
        if f.get("accepted") != "-" or f.get("ok") != "0":
            return "single-bit alterations accepted (bits %s): %s" % (f.get("accepted"), out)
        if f.get("panic") != "0": return "an altered token crashed the context: " + out
        n = sum(int(f[x]) for x in ("Io", "InvalidConst", "InvalidChecksum", "other"))
        if n != expect[1] or int(f.get("n", -1)) != expect[1]:
            return "expected %d rejected flips, got %d: %s" % (expect[1], n, out)
        return None
    return None
from ties import of as _tie_of; TIE_LAYOUTS, TIE_PINS, TIE_ENUMS = _tie_of("C16")   # static-tie lemmas (coq/Gen/Tie) this property depends on
