"""Reference CredSSP (MS-CSSP 2.2.1, 3.1.5) peer for the NTLM leg, written from the standard on top of
gen/nlmp.py: DER TSRequest / TSCredentials encoders, the SERVER's replies for a given client configuration
and preset client randomness, and the three messages a conforming CLIENT sends.  Used by gen/c01.py."""
import os, struct
import nlmp

FIXTURES = os.path.join(os.path.dirname(os.path.abspath(__file__)), "..", "harness", "fixtures")
def cert_der(i): return open(os.path.join(FIXTURES, "cert%d.der" % i), "rb").read()
def pubkey(i):
    """content of the certificate's subjectPublicKey BIT STRING (DER RSAPublicKey)"""
    return open(os.path.join(FIXTURES, "pubkey%d.der" % i), "rb").read()

def der_len(n):
    if n < 0x80: return bytes([n])
    b = n.to_bytes((n.bit_length() + 7) // 8, "big")
    return bytes([0x80 | len(b)]) + b
def tlv(tag, body): return bytes([tag]) + der_len(len(body)) + body
def ctx(n, body): return tlv(0xa0 | n, body)
def octets(b): return tlv(0x04, b)
def der_int(v): return tlv(0x02, v.to_bytes(max(1, (v.bit_length() + 8) // 8), "big"))

def ts_request(version=2, nego=None, auth_info=None, pub_key_auth=None):
    body = ctx(0, der_int(version))
    if nego is not None: body += ctx(1, tlv(0x30, tlv(0x30, ctx(0, octets(nego)))))
    if auth_info is not None: body += ctx(2, octets(auth_info))
    if pub_key_auth is not None: body += ctx(3, octets(pub_key_auth))
    return tlv(0x30, body)

def ts_credentials(domain, user, password):
    pw = tlv(0x30, ctx(0, octets(domain)) + ctx(1, octets(user)) + ctx(2, octets(password)))
    return tlv(0x30, ctx(0, der_int(1)) + ctx(1, octets(pw)))

def le_add(b, k):
    """little-endian byte string of (value of b) + k, keeping len(b) bytes when it fits"""
    v = int.from_bytes(b, "little") + k
    if v < 0: return None
    n = max(len(b), (v.bit_length() + 7) // 8)
    return v.to_bytes(n, "little")

class Run:
    """an honest exchange: user/domain/password (or NT hash), CHALLENGE parameters, preset randomness"""
    def __init__(self, user, domain, password, nthash, challenge, nonce, key, cert=0, restricted=False, hash_mode=False):
        self.user, self.domain, self.password, self.nthash = user, domain, password, nthash
        self.challenge, self.nonce, self.key, self.cert, self.restricted, self.hash_mode = challenge, nonce, key, cert, restricted, hash_mode
        self.negotiate = bytes.fromhex("4e544c4d53535000010000003582086000000000000000000000000000000000")
        self.flags = struct.unpack_from("<I", challenge, 20)[0]
        self.token = nlmp.client_token(user, domain, nthash, self.negotiate, challenge, nonce, key)
        self.c2s, self.s2c = nlmp.session(key)
    def reply1(self): return ts_request(nego=self.challenge)
    def client_messages(self):
        """what a conforming client writes, in order (consumes the client->server direction state)"""
        pk = pubkey(self.cert)
        enc = (lambda x: x.encode("utf-16-le")) if self.flags & nlmp.NEG_UNICODE else (lambda x: x.encode("utf-8"))
        if self.restricted: d = u = p = b""
        else: d, u, p = enc(self.domain), enc(self.user), enc("" if self.hash_mode else self.password)
        w1 = ts_request(nego=self.negotiate)
        w2 = ts_request(nego=self.token, pub_key_auth=self.c2s.seal(pk))
        w3 = ts_request(auth_info=self.c2s.seal(ts_credentials(d, u, p)))
        return [w1, w2, w3]
    def honest_pub_key_auth(self, k=1, cert=None):
        """server's proof: seal(public key + k) in the server->client direction"""
        return self.s2c.seal(le_add(pubkey(self.cert if cert is None else cert), k))
